From Coq Require Import List Arith ZArith Lia Bool Sorted.
From PGA Require Import Cont.Model.
Import ListNotations.
Local Open Scope Z_scope.

Definition units (c : cont) (a : Z) : list unit_ := match aget a (anns c) with Some l => l | None => [] end.
Definition has_ann (c : cont) (a : Z) : Prop := aget a (anns c) <> None.
Definition Inv (prec : Z) (c : cont) : Prop :=
  StronglySorted Z.lt (map fst (anns c)) /\
  (forall a l, In (a, l) (anns c) -> StronglySorted unit_lt l) /\
  StronglySorted Z.lt (cats c) /\
  (forall a u, In (a, u) (all_pairs c) ->
     (forall x, ul u = Some x -> In x (cats c)) /\ binf c <= us u /\ ue u <= bsup c /\ prec < ue u - us u).

(* ------------------------------------------------------------------ *)
(* generic facts on strongly sorted lists                              *)
(* ------------------------------------------------------------------ *)
Section SortedExt.
  Variable A : Type.
  Variable lt : A -> A -> Prop.
  Hypothesis lt_irrefl : forall x, ~ lt x x.
  Hypothesis lt_asym : forall x y, lt x y -> ~ lt y x.

  Lemma sorted_ext_gen l1 : forall l2,
    StronglySorted lt l1 -> StronglySorted lt l2 -> (forall v, In v l1 <-> In v l2) -> l1 = l2.
  Proof.
    induction l1 as [|x r1 IH]; intros [|y r2] S1 S2 H.
    - reflexivity.
    - destruct (proj2 (H y) (or_introl eq_refl)).
    - destruct (proj1 (H x) (or_introl eq_refl)).
    - apply StronglySorted_inv in S1 as [S1 F1]. apply StronglySorted_inv in S2 as [S2 F2].
      rewrite Forall_forall in F1, F2.
      assert (x = y) as ->.
      { destruct (proj1 (H x) (or_introl eq_refl)) as [E|E]; [congruence|].
        destruct (proj2 (H y) (or_introl eq_refl)) as [E'|E']; [congruence|].
        exfalso. apply (lt_asym x y); auto. }
      f_equal. apply IH; auto. intros v; split; intros Hv.
      + destruct (proj1 (H v) (or_intror Hv)) as [E|E]; auto.
        subst v. exfalso. apply (lt_irrefl y). auto.
      + destruct (proj2 (H v) (or_intror Hv)) as [E|E]; auto.
        subst v. exfalso. apply (lt_irrefl y). auto.
  Qed.

  Lemma sorted_not_in_head x l : StronglySorted lt (x :: l) -> ~ In x l.
  Proof.
    intros S Hin. apply StronglySorted_inv in S as [_ F]. rewrite Forall_forall in F.
    apply (lt_irrefl x). auto.
  Qed.
End SortedExt.

(* ------------------------------------------------------------------ *)
(* the order on units                                                  *)
(* ------------------------------------------------------------------ *)
Definition lab_lt (a b : option Z) : Prop :=
  match a, b with None, Some _ => True | Some x, Some y => x < y | _, _ => False end.

Lemma unit_lt_iff u v : unit_lt u v <->
  us u < us v \/ (us u = us v /\ ue u < ue v) \/ (us u = us v /\ ue u = ue v /\ lab_lt (ul u) (ul v)).
Proof.
  unfold unit_lt, unit_ltb.
  destruct ((us u =? us v) && (ue u =? ue v)) eqn:E.
  - apply andb_true_iff in E as [E1 E2]. apply Z.eqb_eq in E1, E2.
    destruct (ul u), (ul v); cbn [lab_lt]; rewrite ?Z.ltb_lt; split; intros H;
      try discriminate; try reflexivity; try lia.
  - rewrite orb_true_iff, andb_true_iff, !Z.ltb_lt, Z.eqb_eq.
    apply andb_false_iff in E. rewrite !Z.eqb_neq in E.
    split; intros H; [lia|]. destruct H as [H|[H|H]]; lia.
Qed.

Lemma unit_eqb_eq u v : unit_eqb u v = true <-> u = v.
Proof.
  destruct u as [s1 e1 l1], v as [s2 e2 l2]; unfold unit_eqb; cbn [us ue ul].
  rewrite !andb_true_iff, !Z.eqb_eq.
  split.
  - intros [[H1 H2] H3]. subst. f_equal.
    destruct l1, l2; cbn in H3; try discriminate; auto. apply Z.eqb_eq in H3; subst; auto.
  - intros H; inversion H; subst. split; [split; auto|]. destruct l2; cbn; auto. apply Z.eqb_refl.
Qed.

Lemma unit_eqb_spec u v : reflect (u = v) (unit_eqb u v).
Proof.
  destruct (unit_eqb u v) eqn:E; constructor.
  - apply unit_eqb_eq; auto.
  - intros H. apply unit_eqb_eq in H. congruence.
Qed.

Lemma unit_lt_irrefl u : ~ unit_lt u u.
Proof.
  rewrite unit_lt_iff. destruct u as [s e l]; cbn [us ue ul]. destruct l; cbn [lab_lt]; lia.
Qed.

Lemma unit_lt_trans u v w : unit_lt u v -> unit_lt v w -> unit_lt u w.
Proof.
  rewrite !unit_lt_iff.
  destruct u as [s1 e1 l1], v as [s2 e2 l2], w as [s3 e3 l3]; cbn [us ue ul].
  destruct l1, l2, l3; cbn [lab_lt]; lia.
Qed.

Lemma unit_lt_total u v : unit_lt u v \/ u = v \/ unit_lt v u.
Proof.
  rewrite !unit_lt_iff.
  destruct u as [s1 e1 l1], v as [s2 e2 l2]; cbn [us ue ul].
  destruct (Z.lt_trichotomy s1 s2) as [H|[H|H]]; [left; lia| |right; right; lia]. subst s2.
  destruct (Z.lt_trichotomy e1 e2) as [H|[H|H]]; [left; lia| |right; right; lia]. subst e2.
  destruct l1 as [x|], l2 as [y|]; cbn [lab_lt].
  - destruct (Z.lt_trichotomy x y) as [H|[H|H]]; [left; lia| |right; right; lia]. subst; auto.
  - right; right. right; right. auto.
  - left. right; right. auto.
  - auto.
Qed.

Lemma unit_lt_asym u v : unit_lt u v -> ~ unit_lt v u.
Proof.
  intros H1 H2. apply (unit_lt_irrefl u). eapply unit_lt_trans; eauto.
Qed.

Lemma unit_lt_us_le u v : unit_lt u v -> us u <= us v.
Proof. rewrite unit_lt_iff. lia. Qed.

(* ------------------------------------------------------------------ *)
(* sorted-set operations                                               *)
(* ------------------------------------------------------------------ *)
Lemma ins_In u l v : In v (ins u l) <-> v = u \/ In v l.
Proof.
  induction l as [|w r IH]; cbn [ins].
  - cbn. intuition auto.
  - destruct (unit_eqb_spec u w) as [E|E].
    + subst. cbn. intuition auto.
    + destruct (unit_ltb u w) eqn:L.
      * cbn. intuition auto.
      * cbn [In]. rewrite IH. intuition auto.
Qed.

Lemma ins_sorted u l : StronglySorted unit_lt l -> StronglySorted unit_lt (ins u l).
Proof.
  induction l as [|w r IH]; intros S; cbn [ins].
  - constructor; constructor.
  - destruct (unit_eqb_spec u w) as [E|E]; [exact S|].
    destruct (unit_ltb u w) eqn:L.
    + constructor; [exact S|]. apply StronglySorted_inv in S as [S F].
      constructor; [exact L|]. rewrite Forall_forall in *. intros x Hx.
      eapply unit_lt_trans; [exact L|auto].
    + apply StronglySorted_inv in S as [S F]. constructor; [auto|].
      rewrite Forall_forall in *. intros x Hx. apply ins_In in Hx as [Hx|Hx]; [|auto].
      subst x. destruct (unit_lt_total u w) as [H|[H|H]]; [unfold unit_lt in H; congruence|congruence|exact H].
Qed.

Lemma del_In_sub u l v : In v (del u l) -> In v l.
Proof.
  induction l as [|w r IH]; cbn [del]; [auto|].
  destruct (unit_eqb_spec u w) as [E|E]; cbn [In]; intuition auto.
Qed.

Lemma del_sorted u l : StronglySorted unit_lt l -> StronglySorted unit_lt (del u l).
Proof.
  induction l as [|w r IH]; intros S; cbn [del]; [constructor|].
  apply StronglySorted_inv in S as [S F].
  destruct (unit_eqb_spec u w) as [E|E]; [exact S|].
  constructor; [auto|]. rewrite Forall_forall in *. intros x Hx. apply F. eapply del_In_sub; eauto.
Qed.

Lemma del_In u l v : StronglySorted unit_lt l -> (In v (del u l) <-> In v l /\ v <> u).
Proof.
  induction l as [|w r IH]; intros S; cbn [del].
  - cbn. tauto.
  - apply StronglySorted_inv in S as [S F]. rewrite Forall_forall in F.
    destruct (unit_eqb_spec u w) as [E|E].
    + subst w. cbn [In]. split.
      * intros H. split; [auto|]. intros ->. apply (unit_lt_irrefl u); auto.
      * intros [[H|H] N]; [congruence|auto].
    + cbn [In]. rewrite (IH S). split.
      * intros [H|[H N]]; [subst; split; auto; congruence|auto].
      * intros [[H|H] N]; auto.
Qed.

Lemma memu_In u l : memu u l = true <-> In u l.
Proof.
  unfold memu. rewrite existsb_exists. split.
  - intros [x [Hx E]]. apply unit_eqb_eq in E. subst; auto.
  - intros H. exists u. split; auto. apply unit_eqb_eq; auto.
Qed.

Lemma sorted_ext l1 l2 : StronglySorted unit_lt l1 -> StronglySorted unit_lt l2 -> (forall v, In v l1 <-> In v l2) -> l1 = l2.
Proof. apply sorted_ext_gen; [exact unit_lt_irrefl|exact unit_lt_asym]. Qed.

(* sorted integer sets *)
Lemma zins_In x l y : In y (zins x l) <-> y = x \/ In y l.
Proof.
  induction l as [|w r IH]; cbn [zins].
  - cbn. intuition auto.
  - destruct (Z.eqb_spec x w) as [E|E].
    + subst. cbn. intuition auto.
    + destruct (Z.ltb_spec x w) as [L|L].
      * cbn. intuition auto.
      * cbn [In]. rewrite IH. intuition auto.
Qed.

Lemma zins_sorted x l : StronglySorted Z.lt l -> StronglySorted Z.lt (zins x l).
Proof.
  induction l as [|w r IH]; intros S; cbn [zins].
  - constructor; constructor.
  - destruct (Z.eqb_spec x w) as [E|E]; [exact S|].
    destruct (Z.ltb_spec x w) as [L|L].
    + constructor; [exact S|]. apply StronglySorted_inv in S as [S F].
      constructor; [exact L|]. rewrite Forall_forall in *. intros z Hz. specialize (F z Hz). lia.
    + apply StronglySorted_inv in S as [S F]. constructor; [auto|].
      rewrite Forall_forall in *. intros z Hz. apply zins_In in Hz as [Hz|Hz]; [lia|auto].
Qed.

(* ------------------------------------------------------------------ *)
(* the annotator dictionary                                            *)
(* ------------------------------------------------------------------ *)
Definition ug (m : amap) (a : Z) : list unit_ := match aget a m with Some l => l | None => [] end.

Lemma aget_In_fwd a m l : aget a m = Some l -> In (a, l) m.
Proof.
  induction m as [|[b k] r IH]; cbn [aget]; [discriminate|].
  destruct (Z.eqb_spec a b) as [E|E].
  - intros H; inversion H; subst; left; reflexivity.
  - intros H; right; auto.
Qed.

Lemma aget_keys a m : aget a m <> None <-> In a (map fst m).
Proof.
  induction m as [|[b k] r IH]; cbn [aget map fst In].
  - tauto.
  - destruct (Z.eqb_spec a b) as [E|E].
    + split; [intros _; left; congruence | intros _; discriminate].
    + rewrite IH. split; [auto | intros [H|H]; [congruence|auto]].
Qed.

Lemma aget_head_none a r : StronglySorted Z.lt (a :: map fst r) -> aget a r = None.
Proof.
  intros S. apply StronglySorted_inv in S as [_ F]. rewrite Forall_forall in F.
  destruct (aget a r) eqn:G; [|reflexivity]. exfalso.
  assert (H : In a (map fst r)) by (apply aget_keys; congruence).
  specialize (F a H). lia.
Qed.

Lemma aget_In a m l : StronglySorted Z.lt (map fst m) -> (aget a m = Some l <-> In (a, l) m).
Proof.
  intros S. split; [apply aget_In_fwd|].
  induction m as [|[b k] r IH]; cbn [aget]; intros H; [destruct H|].
  cbn [map fst] in S. pose proof (aget_head_none _ _ S) as N. apply StronglySorted_inv in S as [S F].
  destruct H as [H|H].
  - inversion H; subst. rewrite Z.eqb_refl. reflexivity.
  - destruct (Z.eqb_spec a b) as [E|E]; [|auto].
    exfalso. subst b. rewrite (IH S H) in N. discriminate.
Qed.

Lemma aupd_keys_In a f m b : In b (map fst (aupd a f m)) <-> b = a \/ In b (map fst m).
Proof.
  induction m as [|[k l] r IH]; cbn [aupd].
  - cbn. intuition auto.
  - destruct (Z.eqb_spec a k) as [E|E].
    + subst. cbn. intuition auto.
    + destruct (Z.ltb_spec a k) as [L|L].
      * cbn. intuition auto.
      * cbn [map fst In]. rewrite IH. intuition auto.
Qed.

Lemma aupd_keys_sorted a f m : StronglySorted Z.lt (map fst m) -> StronglySorted Z.lt (map fst (aupd a f m)).
Proof.
  induction m as [|[k l] r IH]; intros S; cbn [aupd].
  - cbn. constructor; constructor.
  - cbn [map fst] in S.
    destruct (Z.eqb_spec a k) as [E|E]; [exact S|].
    destruct (Z.ltb_spec a k) as [L|L]; cbn [map fst].
    + constructor; [exact S|]. apply StronglySorted_inv in S as [S F].
      constructor; [exact L|]. rewrite Forall_forall in *. intros z Hz. specialize (F z Hz). lia.
    + apply StronglySorted_inv in S as [S F]. constructor; [auto|].
      rewrite Forall_forall in *. intros z Hz. apply aupd_keys_In in Hz as [Hz|Hz]; [lia|auto].
Qed.

Lemma aget_aupd_other a f m b : b <> a -> aget b (aupd a f m) = aget b m.
Proof.
  intros N. induction m as [|[k l] r IH]; cbn [aupd aget].
  - destruct (Z.eqb_spec b a); [congruence|reflexivity].
  - destruct (Z.eqb_spec a k) as [E|E].
    + subst k. cbn [aget]. destruct (Z.eqb_spec b a); [congruence|reflexivity].
    + destruct (Z.ltb_spec a k) as [L|L]; cbn [aget].
      * destruct (Z.eqb_spec b a); [congruence|reflexivity].
      * rewrite IH. reflexivity.
Qed.

Lemma aget_aupd_same a f m : StronglySorted Z.lt (map fst m) -> aget a (aupd a f m) = Some (f (ug m a)).
Proof.
  unfold ug. induction m as [|[k l] r IH]; intros S; cbn [aupd aget].
  - rewrite Z.eqb_refl. reflexivity.
  - cbn [map fst] in S.
    destruct (Z.eqb_spec a k) as [E|E].
    + subst k. cbn [aget]. rewrite Z.eqb_refl. reflexivity.
    + destruct (Z.ltb_spec a k) as [L|L]; cbn [aget].
      * rewrite Z.eqb_refl.
        assert (G : aget a r = None).
        { apply aget_head_none. apply StronglySorted_inv in S as [S F]. constructor; [exact S|].
          rewrite Forall_forall in *. intros z Hz. specialize (F z Hz). lia. }
        rewrite G. reflexivity.
      * destruct (Z.eqb_spec a k); [congruence|]. apply IH. apply StronglySorted_inv in S as [S _]. exact S.
Qed.

Lemma ug_aupd a f m b : StronglySorted Z.lt (map fst m) ->
  ug (aupd a f m) b = if Z.eq_dec b a then f (ug m a) else ug m b.
Proof.
  intros S. unfold ug at 1. destruct (Z.eq_dec b a) as [->|N].
  - rewrite aget_aupd_same by auto. reflexivity.
  - rewrite aget_aupd_other by auto. reflexivity.
Qed.

Lemma in_all_pairs c a u : In (a, u) (all_pairs c) <-> exists l, In (a, l) (anns c) /\ In u l.
Proof.
  unfold all_pairs. rewrite in_flat_map. split.
  - intros [[b l] [H1 H2]]. cbn [fst snd] in H2. apply in_map_iff in H2 as [v [E Hv]].
    inversion E; subst. eauto.
  - intros [l [H1 H2]]. exists (a, l). split; auto. cbn [fst snd]. apply in_map_iff. eauto.
Qed.

Lemma in_all_pairs_units c a u : StronglySorted Z.lt (map fst (anns c)) ->
  (In (a, u) (all_pairs c) <-> In u (units c a)).
Proof.
  intros S. rewrite in_all_pairs. unfold units. split.
  - intros [l [H1 H2]]. apply (aget_In a _ l S) in H1. rewrite H1. auto.
  - intros H. destruct (aget a (anns c)) as [l|] eqn:G; [|destruct H].
    exists l. split; auto. apply aget_In_fwd; auto.
Qed.

Lemma units_in_has_ann c b v : In v (units c b) -> has_ann c b.
Proof.
  unfold units, has_ann. destruct (aget b (anns c)); [discriminate|intros []].
Qed.

Lemma has_ann_keys c b : has_ann c b <-> In b (map fst (anns c)).
Proof. apply aget_keys. Qed.

(* the invariant, phrased through the abstraction functions *)
Definition Inv' (prec : Z) (c : cont) : Prop :=
  StronglySorted Z.lt (map fst (anns c)) /\
  (forall a, StronglySorted unit_lt (units c a)) /\
  StronglySorted Z.lt (cats c) /\
  (forall a u, In u (units c a) ->
     (forall x, ul u = Some x -> In x (cats c)) /\ binf c <= us u /\ ue u <= bsup c /\ prec < ue u - us u).

Lemma Inv_iff prec c : Inv prec c <-> Inv' prec c.
Proof.
  unfold Inv, Inv'. split; intros (I1 & I2 & I3 & I4); (split; [exact I1|split; [|split; [exact I3|]]]).
  - intros a. unfold units. destruct (aget a (anns c)) as [l|] eqn:G; [|constructor].
    apply (I2 a). apply aget_In_fwd; auto.
  - intros a u H. apply (I4 a). apply in_all_pairs_units; auto.
  - intros a l H. apply (aget_In a _ l I1) in H. specialize (I2 a). unfold units in I2. rewrite H in I2. exact I2.
  - intros a u H. apply (I4 a). apply in_all_pairs_units; auto.
Qed.

(* ------------------------------------------------------------------ *)
(* operations                                                          *)
(* ------------------------------------------------------------------ *)
Lemma Inv_empty prec : Inv prec empty_cont.
Proof.
  unfold Inv, empty_cont; cbn. split; [constructor|]. split; [intros a l []|]. split; [constructor|]. intros a u [].
Qed.

Theorem add_zero_length prec c a u : ue u - us u <= prec -> add prec c a u = (c, ErrZeroLength).
Proof.
  intros H. unfold add. destruct (Z.leb_spec (ue u - us u) prec) as [L|L]; [reflexivity|lia].
Qed.

Theorem add_spec prec c a u : Inv prec c -> prec < ue u - us u ->
  exists c', add prec c a u = (c', Ok) /\ Inv prec c' /\
    (forall b, has_ann c' b <-> (b = a \/ has_ann c b)) /\
    (forall b v, In v (units c' b) <-> ((b = a /\ v = u) \/ In v (units c b))) /\
    (forall x, In x (cats c') <-> (ul u = Some x \/ In x (cats c))) /\
    binf c' = Z.min (binf c) (us u) /\ bsup c' = Z.max (bsup c) (ue u).
Proof.
  intros I Hlen. apply Inv_iff in I. destruct I as (I1 & I2 & I3 & I4).
  unfold add. destruct (Z.leb_spec (ue u - us u) prec) as [L|L]; [lia|].
  eexists. split; [reflexivity|].
  match goal with |- Inv _ ?x /\ _ => set (c' := x) end.
  assert (U : forall b, units c' b = if Z.eq_dec b a then ins u (units c a) else units c b).
  { intros b. apply (ug_aupd a (ins u) (anns c) b I1). }
  assert (C : forall x, In x (cats c') <-> (ul u = Some x \/ In x (cats c))).
  { intros x. unfold c'; cbn [cats]. destruct (ul u) as [y|].
    - rewrite zins_In. split; [intros [H|H]; [left; congruence|auto]|intros [H|H]; [left; congruence|auto]].
    - split; [auto|intros [H|H]; [discriminate|auto]]. }
  assert (UI : forall b v, In v (units c' b) <-> ((b = a /\ v = u) \/ In v (units c b))).
  { intros b v. rewrite U. destruct (Z.eq_dec b a) as [->|N].
    - rewrite ins_In. intuition auto.
    - intuition auto. }
  split; [|split; [|split; [exact UI|split; [exact C|split; reflexivity]]]].
  - apply Inv_iff. split; [|split; [|split]].
    + apply aupd_keys_sorted; auto.
    + intros b. rewrite U. destruct (Z.eq_dec b a); [apply ins_sorted|]; auto.
    + unfold c'; cbn [cats]. destruct (ul u); [apply zins_sorted|]; auto.
    + intros b v H. apply UI in H. unfold c' at 2 3; cbn [binf bsup]. destruct H as [[-> ->]|H].
      * split; [intros x Hx; apply C; auto|]. lia.
      * destruct (I4 b v H) as (J1 & J2 & J3 & J4).
        split; [intros x Hx; apply C; auto|]. lia.
  - intros b. unfold has_ann, c'; cbn [anns]. rewrite !aget_keys. apply aupd_keys_In.
Qed.

Theorem add_annotator_spec prec c a : Inv prec c ->
  let c' := add_annotator c a in Inv prec c' /\
    (forall b, has_ann c' b <-> (b = a \/ has_ann c b)) /\
    (forall b, units c' b = units c b) /\ cats c' = cats c /\ binf c' = binf c /\ bsup c' = bsup c.
Proof.
  intros I c'. apply Inv_iff in I. destruct I as (I1 & I2 & I3 & I4).
  assert (U : forall b, units c' b = units c b).
  { intros b. change (units c' b) with (ug (aupd a (fun l => l) (anns c)) b).
    rewrite (ug_aupd a (fun l => l) (anns c) b I1). destruct (Z.eq_dec b a) as [->|N]; reflexivity. }
  split; [|split; [|split; [exact U|repeat split; reflexivity]]].
  - apply Inv_iff. split; [|split; [|split]].
    + apply aupd_keys_sorted; auto.
    + intros b. rewrite U. auto.
    + exact I3.
    + intros b v H. rewrite U in H. exact (I4 b v H).
  - intros b. unfold has_ann, c'; cbn [anns add_annotator]. rewrite !aget_keys. apply aupd_keys_In.
Qed.

Theorem remove_spec prec c a u : Inv prec c ->
  (In u (units c a) ->
     exists c', remove c a u = (c', Ok) /\ Inv prec c' /\
       (forall b, has_ann c' b <-> has_ann c b) /\
       (forall b v, In v (units c' b) <-> (In v (units c b) /\ ~ (b = a /\ v = u))) /\
       cats c' = cats c /\ binf c' = binf c /\ bsup c' = bsup c) /\
  (~ In u (units c a) -> remove c a u = (c, ErrKey)).
Proof.
  intros I. apply Inv_iff in I. destruct I as (I1 & I2 & I3 & I4). split.
  - intros Hin. pose proof (units_in_has_ann _ _ _ Hin) as HA. unfold remove.
    pose proof Hin as Hin'. unfold units in Hin'.
    destruct (aget a (anns c)) as [l|] eqn:G; [|destruct Hin'].
    rewrite (proj2 (memu_In u l) Hin'). eexists. split; [reflexivity|].
    match goal with |- Inv _ ?x /\ _ => set (c' := x) end.
    assert (U : forall b, units c' b = if Z.eq_dec b a then del u (units c a) else units c b).
    { intros b. apply (ug_aupd a (del u) (anns c) b I1). }
    assert (UI : forall b v, In v (units c' b) <-> (In v (units c b) /\ ~ (b = a /\ v = u))).
    { intros b v. rewrite U. destruct (Z.eq_dec b a) as [->|N].
      - rewrite (del_In u _ v (I2 a)). intuition auto.
      - intuition auto. }
    split; [|split; [|split; [exact UI|repeat split; reflexivity]]].
    + apply Inv_iff. split; [|split; [|split]].
      * apply aupd_keys_sorted; auto.
      * intros b. rewrite U. destruct (Z.eq_dec b a); [apply del_sorted|]; auto.
      * exact I3.
      * intros b v H. apply UI in H. destruct H as [H _]. exact (I4 b v H).
    + intros b. unfold has_ann, c'; cbn [anns]. rewrite !aget_keys, aupd_keys_In.
      split; [intros [->|H]; [apply aget_keys; exact HA|exact H]|auto].
  - intros Hn. unfold remove. unfold units in Hn. destruct (aget a (anns c)) as [l|]; [|reflexivity].
    destruct (memu u l) eqn:M; [|reflexivity]. apply memu_In in M. contradiction.
Qed.

(* ------------------------------------------------------------------ *)
(* merge                                                               *)
(* ------------------------------------------------------------------ *)
Lemma fold_add_annotator_spec prec (l : amap) : forall c, Inv prec c ->
  let c' := fold_left (fun acc (al : Z * list unit_) => add_annotator acc (fst al)) l c in
  Inv prec c' /\ (forall b, has_ann c' b <-> (has_ann c b \/ In b (map fst l))) /\
  (forall b, units c' b = units c b) /\ cats c' = cats c /\ binf c' = binf c /\ bsup c' = bsup c.
Proof.
  induction l as [|[a k] r IH]; intros c I; cbv zeta; cbn [fold_left].
  - split; [exact I|]. split; [intros b; cbn; tauto|]. repeat split; reflexivity.
  - pose proof (add_annotator_spec prec c a I) as J. cbv zeta in J. destruct J as (J1 & J2 & J3 & J4 & J5 & J6).
    pose proof (IH _ J1) as K. cbv zeta in K. destruct K as (K1 & K2 & K3 & K4 & K5 & K6). cbn [fst].
    split; [exact K1|]. split; [|split; [|split; [|split]]].
    + intros b. rewrite K2, J2. cbn [map fst In]. intuition auto.
    + intros b. rewrite K3. apply J3.
    + congruence.
    + congruence.
    + congruence.
Qed.

Lemma fold_add_spec prec (l : list (Z * unit_)) : forall c, Inv prec c ->
  (forall b v, In (b, v) l -> prec < ue v - us v) ->
  let c' := fold_left (fun acc (au : Z * unit_) => fst (add prec acc (fst au) (snd au))) l c in
  Inv prec c' /\ (forall b, has_ann c' b <-> (has_ann c b \/ exists v, In (b, v) l)) /\
  (forall b v, In v (units c' b) <-> (In v (units c b) \/ In (b, v) l)) /\
  (forall x, In x (cats c') <-> (In x (cats c) \/ exists b v, In (b, v) l /\ ul v = Some x)).
Proof.
  induction l as [|[a u] r IH]; intros c I Hl; cbv zeta; cbn [fold_left fst snd].
  - split; [exact I|]. split; [intros b; split; [auto|intros [H|[v []]]; auto]|].
    split; [intros b v; cbn; tauto|]. intros x; split; [auto|intros [H|(b & v & [] & _)]; auto].
  - destruct (add_spec prec c a u I (Hl a u (or_introl eq_refl))) as (c1 & E & J1 & J2 & J3 & J4 & _).
    rewrite E. cbn [fst].
    assert (Hr : forall b v, In (b, v) r -> prec < ue v - us v) by (intros b v Hbv; apply (Hl b v); right; exact Hbv).
    pose proof (IH c1 J1 Hr) as K. cbv zeta in K. destruct K as (K1 & K2 & K3 & K4).
    split; [exact K1|]. split; [|split].
    + intros b. rewrite K2, J2. split.
      * intros [[H|H]|[v H]]; [right; exists u; left; congruence | auto | right; exists v; right; auto].
      * intros [H|[v [H|H]]]; [auto | inversion H; auto | right; eauto].
    + intros b v. rewrite K3, J3. cbn [In]. split.
      * intros [[[H1 H2]|H]|H]; [right; left; congruence | auto | auto].
      * intros [H|[H|H]]; [auto | inversion H; auto | auto].
    + intros x. rewrite K4, J4. split.
      * intros [[H|H]|(b & v & H1 & H2)];
          [right; exists a, u; split; auto; left; auto | auto | right; exists b, v; split; auto; right; auto].
      * intros [H|(b & v & [H1|H1] & H2)]; [auto | inversion H1; subst; auto | right; eauto].
Qed.

Theorem merge_spec prec c d : Inv prec c -> Inv prec d ->
  let m := merge prec c d in Inv prec m /\
    (forall b, has_ann m b <-> (has_ann c b \/ has_ann d b)) /\
    (forall b v, In v (units m b) <-> (In v (units c b) \/ In v (units d b))) /\
    (forall x, In x (cats m) <-> (In x (cats c) \/ exists b v, In v (units d b) /\ ul v = Some x)).
Proof.
  intros Ic Id. cbv zeta. unfold merge.
  pose proof (fold_add_annotator_spec prec (anns d) c Ic) as J. cbv zeta in J.
  destruct J as (J1 & J2 & J3 & J4 & J5 & J6).
  set (c1 := fold_left (fun acc (al : Z * list unit_) => add_annotator acc (fst al)) (anns d) c) in *.
  assert (Sd : StronglySorted Z.lt (map fst (anns d))) by apply Id.
  assert (Hl : forall b v, In (b, v) (all_pairs d) -> prec < ue v - us v).
  { intros b v H. destruct Id as (_ & _ & _ & I4). apply I4 in H. tauto. }
  pose proof (fold_add_spec prec (all_pairs d) c1 J1 Hl) as K. cbv zeta in K.
  destruct K as (K1 & K2 & K3 & K4).
  split; [exact K1|]. split; [|split].
  - intros b. rewrite K2, J2, <- has_ann_keys. split.
    + intros [[H|H]|[v H]]; auto. right. apply (units_in_has_ann d b v). apply in_all_pairs_units; auto.
    + intros [H|H]; auto.
  - intros b v. rewrite K3, J3, (in_all_pairs_units d b v Sd). tauto.
  - intros x. rewrite K4, J4. split.
    + intros [H|(b & v & H1 & H2)]; auto. right. exists b, v. split; auto. apply in_all_pairs_units; auto.
    + intros [H|(b & v & H1 & H2)]; auto. right. exists b, v. split; auto. apply in_all_pairs_units; auto.
Qed.

Theorem copy_flush_spec prec c : Inv prec c -> let f := copy_flush c in
  Inv prec f /\ anns f = [] /\ cats f = [] /\ binf f = binf c /\ bsup f = bsup c.
Proof.
  intros I f. split; [|repeat split; reflexivity].
  unfold Inv, f, copy_flush; cbn. split; [constructor|]. split; [intros a l []|]. split; [constructor|]. intros a u [].
Qed.

(* ------------------------------------------------------------------ *)
(* canonical representation                                            *)
(* ------------------------------------------------------------------ *)
Lemma amap_canonical m1 : forall m2,
  StronglySorted Z.lt (map fst m1) -> StronglySorted Z.lt (map fst m2) ->
  (forall a l, In (a, l) m1 -> StronglySorted unit_lt l) ->
  (forall a l, In (a, l) m2 -> StronglySorted unit_lt l) ->
  (forall b, aget b m1 <> None <-> aget b m2 <> None) ->
  (forall b v, In v (ug m1 b) <-> In v (ug m2 b)) -> m1 = m2.
Proof.
  induction m1 as [|[a1 l1] r1 IH]; intros [|[a2 l2] r2] S1 S2 U1 U2 HA HU.
  - reflexivity.
  - exfalso. apply (proj2 (HA a2)); [|reflexivity]. cbn [aget]. rewrite Z.eqb_refl. discriminate.
  - exfalso. apply (proj1 (HA a1)); [|reflexivity]. cbn [aget]. rewrite Z.eqb_refl. discriminate.
  - cbn [map fst] in S1, S2.
    pose proof (aget_head_none _ _ S1) as N1. pose proof (aget_head_none _ _ S2) as N2.
    pose proof S1 as S1'. pose proof S2 as S2'.
    apply StronglySorted_inv in S1' as [T1 F1]. apply StronglySorted_inv in S2' as [T2 F2].
    rewrite Forall_forall in F1, F2.
    assert (E : a1 = a2).
    { assert (H1 : In a1 (map fst ((a2, l2) :: r2))).
      { apply aget_keys. apply HA. cbn [aget]. rewrite Z.eqb_refl. discriminate. }
      assert (H2 : In a2 (map fst ((a1, l1) :: r1))).
      { apply aget_keys. apply HA. cbn [aget]. rewrite Z.eqb_refl. discriminate. }
      cbn [map fst In] in H1, H2.
      destruct H1 as [H1|H1]; [congruence|]. destruct H2 as [H2|H2]; [congruence|].
      specialize (F1 _ H2). specialize (F2 _ H1). lia. }
    subst a2.
    assert (El : l1 = l2).
    { apply sorted_ext.
      - apply (U1 a1). left; reflexivity.
      - apply (U2 a1). left; reflexivity.
      - intros v. specialize (HU a1 v). unfold ug in HU. cbn [aget] in HU. rewrite Z.eqb_refl in HU. exact HU. }
    subst l2. f_equal. apply IH; auto.
    + intros a l H. apply (U1 a l). right; exact H.
    + intros a l H. apply (U2 a l). right; exact H.
    + intros b. destruct (Z.eq_dec b a1) as [->|N].
      * rewrite N1, N2. tauto.
      * specialize (HA b). cbn [aget] in HA. destruct (Z.eqb_spec b a1); [congruence|]. exact HA.
    + intros b v. destruct (Z.eq_dec b a1) as [->|N].
      * unfold ug. rewrite N1, N2. tauto.
      * specialize (HU b v). unfold ug in HU. cbn [aget] in HU. destruct (Z.eqb_spec b a1); [congruence|]. exact HU.
Qed.

Theorem canonical prec c d : Inv prec c -> Inv prec d ->
  (forall b, has_ann c b <-> has_ann d b) -> (forall b v, In v (units c b) <-> In v (units d b)) -> anns c = anns d.
Proof.
  intros (C1 & C2 & _) (D1 & D2 & _) HA HU. apply amap_canonical; auto.
Qed.

Lemma combine_eqb_eq (l1 : list (Z * unit_)) : forall l2, length l1 = length l2 ->
  forallb (fun p => (fst (fst p) =? fst (snd p)) && unit_eqb (snd (fst p)) (snd (snd p))) (combine l1 l2) = true ->
  l1 = l2.
Proof.
  induction l1 as [|[a u] r1 IH]; intros [|[b v] r2] L H; cbn [length] in L; try discriminate; [reflexivity|].
  cbn [combine forallb fst snd] in H. apply andb_true_iff in H as [H1 H2]. apply andb_true_iff in H1 as [H0 H1].
  apply Z.eqb_eq in H0. apply unit_eqb_eq in H1. subst. f_equal. apply IH; auto.
Qed.

Lemma combine_eqb_refl (l : list (Z * unit_)) :
  forallb (fun p => (fst (fst p) =? fst (snd p)) && unit_eqb (snd (fst p)) (snd (snd p))) (combine l l) = true.
Proof.
  induction l as [|[a u] r IH]; [reflexivity|]. cbn [combine forallb fst snd].
  rewrite Z.eqb_refl, (proj2 (unit_eqb_eq u u) eq_refl), IH. reflexivity.
Qed.

Theorem cont_eqb_spec prec c d : Inv prec c -> Inv prec d -> (cont_eqb c d = true <-> anns c = anns d).
Proof.
  intros Ic Id. unfold cont_eqb. split.
  - destruct (list_eq_dec Z.eq_dec (map fst (anns c)) (map fst (anns d))) as [K|K]; [|discriminate].
    intros H. apply andb_true_iff in H as [H1 H2]. apply Nat.eqb_eq in H1.
    pose proof (combine_eqb_eq _ _ H1 H2) as P.
    apply (canonical prec); auto.
    + intros b. rewrite !has_ann_keys, K. tauto.
    + intros b v. rewrite <- !in_all_pairs_units by (apply Ic || apply Id). rewrite P. tauto.
  - intros E. unfold all_pairs. rewrite E.
    destruct (list_eq_dec Z.eq_dec (map fst (anns d)) (map fst (anns d))) as [K|K]; [|congruence].
    rewrite Nat.eqb_refl. cbn [andb]. apply combine_eqb_refl.
Qed.

(* ------------------------------------------------------------------ *)
(* reset_bounds                                                        *)
(* ------------------------------------------------------------------ *)
Lemma fold_min_spec r : forall x,
  (forall y, In y (x :: r) -> fold_left Z.min r x <= y) /\ In (fold_left Z.min r x) (x :: r).
Proof.
  induction r as [|z r IH]; intros x; cbn [fold_left].
  - split; [intros y [H|[]]; lia | left; auto].
  - destruct (IH (Z.min x z)) as [H1 H2]. split.
    + pose proof (H1 (Z.min x z) (or_introl eq_refl)) as H0.
      intros y [H|[H|H]]; [subst; lia | subst; lia | apply H1; right; auto].
    + destruct H2 as [H2|H2]; [|right; right; auto]. rewrite <- H2.
      destruct (Z.min_spec x z) as [[_ E]|[_ E]]; rewrite E; [left|right; left]; auto.
Qed.

Lemma fold_max_spec r : forall x,
  (forall y, In y (x :: r) -> y <= fold_left Z.max r x) /\ In (fold_left Z.max r x) (x :: r).
Proof.
  induction r as [|z r IH]; intros x; cbn [fold_left].
  - split; [intros y [H|[]]; lia | left; auto].
  - destruct (IH (Z.max x z)) as [H1 H2]. split.
    + pose proof (H1 (Z.max x z) (or_introl eq_refl)) as H0.
      intros y [H|[H|H]]; [subst; lia | subst; lia | apply H1; right; auto].
    + destruct H2 as [H2|H2]; [|right; right; auto]. rewrite <- H2.
      destruct (Z.max_spec x z) as [[_ E]|[_ E]]; rewrite E; [right; left|left]; auto.
Qed.

Lemma zmin_list_spec l : l <> [] -> (forall y, In y l -> zmin_list l <= y) /\ In (zmin_list l) l.
Proof. destruct l as [|x r]; [congruence|]. intros _. apply fold_min_spec. Qed.

Lemma zmax_list_spec l : l <> [] -> (forall y, In y l -> y <= zmax_list l) /\ In (zmax_list l) l.
Proof. destruct l as [|x r]; [congruence|]. intros _. apply fold_max_spec. Qed.

Lemma flat_map_nil {A B C} (g : A -> list B) (h : A -> list C) (m : list A) :
  (forall x, g x = [] -> h x = []) -> flat_map g m = [] -> flat_map h m = [].
Proof.
  intros Hgh. induction m as [|x r IH]; cbn [flat_map]; [auto|].
  intros H. apply app_eq_nil in H as [H1 H2]. rewrite (Hgh x H1), (IH H2). reflexivity.
Qed.

Definition first_starts (c : cont) : list Z :=
  flat_map (fun al : Z * list unit_ => match snd al with [] => [] | u :: _ => [us u] end) (anns c).

Theorem reset_bounds_spec prec c : Inv prec c -> let r := reset_bounds c in
  Inv prec r /\ anns r = anns c /\ cats r = cats c /\
  (all_pairs c = [] -> binf r = 0 /\ bsup r = 0) /\
  (all_pairs c <> [] ->
     (forall a u, In (a, u) (all_pairs c) -> binf r <= us u /\ ue u <= bsup r) /\
     (exists a u, In (a, u) (all_pairs c) /\ binf r = us u) /\ (exists a u, In (a, u) (all_pairs c) /\ bsup r = ue u)).
Proof.
  intros I r. destruct I as (I1 & I2 & I3 & I4).
  change (binf r) with (zmin_list (first_starts c)).
  change (bsup r) with (zmax_list (map (fun au : Z * unit_ => ue (snd au)) (all_pairs c))).
  (* every unit is bounded below by the first start of its annotator *)
  assert (FS : forall a u, In (a, u) (all_pairs c) -> exists y, In y (first_starts c) /\ y <= us u).
  { intros a u H. apply in_all_pairs in H as (l & H1 & H2). specialize (I2 a l H1).
    destruct l as [|u0 l']; [destruct H2|]. exists (us u0). split.
    - unfold first_starts. apply in_flat_map. exists (a, u0 :: l'). split; [exact H1|]. left; reflexivity.
    - destruct H2 as [H2|H2]; [subst; lia|]. apply StronglySorted_inv in I2 as [_ F].
      rewrite Forall_forall in F. apply unit_lt_us_le. auto. }
  assert (FS' : forall y, In y (first_starts c) -> exists a u, In (a, u) (all_pairs c) /\ y = us u).
  { intros y H. unfold first_starts in H. apply in_flat_map in H as ([a l] & H1 & H2). cbn [snd] in H2.
    destruct l as [|u0 l']; [destruct H2|]. destruct H2 as [H2|[]]. exists a, u0. split; [|auto].
    apply in_all_pairs. exists (u0 :: l'). split; [exact H1|left; reflexivity]. }
  assert (B : all_pairs c <> [] ->
     (forall a u, In (a, u) (all_pairs c) ->
        zmin_list (first_starts c) <= us u /\
        ue u <= zmax_list (map (fun au : Z * unit_ => ue (snd au)) (all_pairs c))) /\
     (exists a u, In (a, u) (all_pairs c) /\ zmin_list (first_starts c) = us u) /\
     (exists a u, In (a, u) (all_pairs c) /\
        zmax_list (map (fun au : Z * unit_ => ue (snd au)) (all_pairs c)) = ue u)).
  { intros NE.
    assert (NF : first_starts c <> []).
    { destruct (all_pairs c) as [|[a u] t] eqn:G; [congruence|].
      destruct (FS a u (or_introl eq_refl)) as (y & Hy & _). intros K. rewrite K in Hy. destruct Hy. }
    assert (NM : map (fun au : Z * unit_ => ue (snd au)) (all_pairs c) <> []).
    { intros K. apply map_eq_nil in K. contradiction. }
    destruct (zmin_list_spec _ NF) as [m1 m2]. destruct (zmax_list_spec _ NM) as [M1 M2].
    split; [|split].
    - intros a u H. split.
      + destruct (FS a u H) as (y & Hy & Le). specialize (m1 y Hy). lia.
      + apply M1. apply in_map_iff. exists (a, u). split; auto.
    - apply FS'. exact m2.
    - apply in_map_iff in M2 as ([a u] & E & H). exists a, u. split; auto. }
  split; [|split; [reflexivity|split; [reflexivity|split; [|exact B]]]].
  - unfold Inv. change (anns r) with (anns c). change (cats r) with (cats c). change (all_pairs r) with (all_pairs c).
    split; [exact I1|]. split; [exact I2|]. split; [exact I3|]. intros a u H.
    change (binf r) with (zmin_list (first_starts c)).
    change (bsup r) with (zmax_list (map (fun au : Z * unit_ => ue (snd au)) (all_pairs c))).
    destruct (I4 a u H) as (J1 & _ & _ & J4).
    assert (NE : all_pairs c <> []) by (intros K; rewrite K in H; destruct H).
    destruct (B NE) as (B1 & _). destruct (B1 a u H) as [B2 B3].
    split; [exact J1|]. split; [exact B2|]. split; [exact B3|exact J4].
  - intros E. split.
    + unfold first_starts. rewrite (flat_map_nil (fun al : Z * list unit_ => map (fun u => (fst al, u)) (snd al)) _ (anns c)); [reflexivity| |exact E].
      intros [a l] H. cbn [fst snd] in *. apply map_eq_nil in H. subst l. reflexivity.
    + rewrite E. reflexivity.
Qed.

(* ------------------------------------------------------------------ *)
(* histories                                                           *)
(* ------------------------------------------------------------------ *)
Lemma rget_rset_same rs : forall r c, (r < length rs)%nat -> rget (rset rs r c) r = c.
Proof.
  unfold rget. induction rs as [|h t IH]; intros [|r] c H; cbn [length] in H; try lia; cbn [rset nth]; [reflexivity|].
  apply IH. lia.
Qed.

Lemma rget_rset_other rs : forall r r' c, r <> r' -> rget (rset rs r c) r' = rget rs r'.
Proof.
  unfold rget. induction rs as [|h t IH]; intros [|r] [|r'] c H; cbn [rset nth]; try reflexivity; try congruence.
  apply IH. congruence.
Qed.

Lemma rset_Forall (P : cont -> Prop) rs : forall r c, Forall P rs -> P c -> Forall P (rset rs r c).
Proof.
  induction rs as [|h t IH]; intros [|r] c F Hc; cbn [rset]; try constructor; inversion F; subst; auto.
Qed.

Lemma rget_Forall (P : cont -> Prop) rs r : Forall P rs -> P empty_cont -> P (rget rs r).
Proof.
  intros F He. unfold rget. destruct (nth_in_or_default r rs empty_cont) as [H|H].
  - rewrite Forall_forall in F. auto.
  - rewrite H. exact He.
Qed.

Lemma rget_inv prec rs r : Forall (Inv prec) rs -> Inv prec (rget rs r).
Proof. intros F. apply rget_Forall; [exact F|apply Inv_empty]. Qed.

Theorem step_inv prec rs o : Forall (Inv prec) rs -> Forall (Inv prec) (fst (step prec rs o)).
Proof.
  intros F. destruct o; cbn [step].
  - destruct (Z.le_gt_cases (ue u - us u) prec) as [L|L].
    + rewrite (add_zero_length prec _ a u L). cbn [fst]. apply rset_Forall; [exact F|apply rget_inv; exact F].
    + destruct (add_spec prec (rget rs r) a u (rget_inv prec rs r F)) as (c' & E & J & _); [lia|].
      rewrite E. cbn [fst]. apply rset_Forall; auto.
  - cbn [fst]. apply rset_Forall; [exact F|]. apply add_annotator_spec. apply rget_inv; exact F.
  - destruct (remove_spec prec (rget rs r) a u (rget_inv prec rs r F)) as [R1 R2].
    destruct (memu u (units (rget rs r) a)) eqn:M.
    + apply memu_In in M. destruct (R1 M) as (c' & E & J & _). rewrite E. cbn [fst]. apply rset_Forall; auto.
    + assert (N : ~ In u (units (rget rs r) a)) by (intros H; apply memu_In in H; congruence).
      rewrite (R2 N). cbn [fst]. apply rset_Forall; [exact F|apply rget_inv; exact F].
  - cbn [fst]. apply rset_Forall; [exact F|]. apply merge_spec; apply rget_inv; exact F.
  - cbn [fst]. apply rset_Forall; [exact F|]. unfold copy. apply merge_spec; apply rget_inv; exact F.
  - cbn [fst]. apply rset_Forall; [exact F|]. unfold copy. apply rget_inv; exact F.
  - cbn [fst]. apply rset_Forall; [exact F|]. apply copy_flush_spec. apply rget_inv; exact F.
  - cbn [fst]. apply rset_Forall; [exact F|]. apply reset_bounds_spec. apply rget_inv; exact F.
Qed.

Theorem run_ops_inv prec rs ops : Forall (Inv prec) rs -> Forall (Inv prec) (run_ops prec rs ops).
Proof.
  unfold run_ops. revert rs. induction ops as [|o t IH]; intros rs F; cbn [fold_left]; [exact F|].
  apply IH. apply step_inv. exact F.
Qed.

Theorem merge_new_eq_inplace prec rs dst r s :
  rget (fst (step prec rs (OMergeNew dst r s))) dst = rget (fst (step prec rs (OMergeInPlace r s))) r \/ (length rs <= dst)%nat \/ (length rs <= r)%nat.
Proof.
  cbn [step fst]. unfold copy.
  destruct (Nat.lt_ge_cases dst (length rs)) as [H1|H1]; [|right; left; exact H1].
  destruct (Nat.lt_ge_cases r (length rs)) as [H2|H2]; [|right; right; exact H2].
  left. rewrite !rget_rset_same by assumption. reflexivity.
Qed.

Print Assumptions add_zero_length.
Print Assumptions add_spec.
Print Assumptions add_annotator_spec.
Print Assumptions remove_spec.
Print Assumptions merge_spec.
Print Assumptions copy_flush_spec.
Print Assumptions canonical.
Print Assumptions cont_eqb_spec.
Print Assumptions reset_bounds_spec.
Print Assumptions step_inv.
Print Assumptions run_ops_inv.
Print Assumptions merge_new_eq_inplace.
Print Assumptions unit_eqb_eq.
Print Assumptions unit_lt_irrefl.
Print Assumptions unit_lt_trans.
Print Assumptions unit_lt_total.
Print Assumptions unit_lt_asym.
Print Assumptions ins_sorted.
Print Assumptions ins_In.
Print Assumptions del_sorted.
Print Assumptions del_In.
Print Assumptions memu_In.
Print Assumptions sorted_ext.
Print Assumptions Inv_empty.
