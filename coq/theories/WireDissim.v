(* Wire functions for the dissimilarity model (C04, C09): evaluate a dissimilarity description on two units. *)
From Coq Require Import List Arith ZArith QArith Lia Bool.
From PGA Require Import Wire WireMisc Dissim.Model.
Import ListNotations.
Local Open Scope Z_scope.

Inductive dspec :=
| DPos (de : Q)
| DAbs (de : Q)
| DTable (cats : list Z) (m : list (list Q)) (de : Q)
| DLev (labels : list (list nat)) (de : Q)          (* a unit's category is an index into labels *)
| DOrd (lp : list (Z * Q)) (de : Q)
| DComb (alpha beta : Q) (pos cat : dspec).

Definition cat_or (u : unitq) (d : Z) : Z := match qc u with Some x => x | None => d end.
Fixpoint deval (s : dspec) (u v : unitq) : Q :=
  match s with
  | DPos de => dpos de u v
  | DAbs de => dabs de u v
  | DTable cats m de => dtable cats m de u v
  | DLev labels de => dlev labels de (nth (Z.to_nat (cat_or u 0)) labels []) (nth (Z.to_nat (cat_or v 0)) labels [])
  | DOrd lp de => dord lp de (cat_or u (-1)) (cat_or v (-1))
  | DComb alpha beta p c => (alpha * deval p u v + beta * deval c u v)%Q
  end.

Fixpoint getSpec (fuel : nat) : P dspec :=
  match fuel with
  | O => fun _ => None
  | S f =>
    k <- getNat ;;
    match k with
    | 0%nat => de <- getQ ;; ret (DPos de)
    | 1%nat => de <- getQ ;; ret (DAbs de)
    | 2%nat => cats <- getList getZ ;; m <- getList (getList getQ) ;; de <- getQ ;; ret (DTable cats m de)
    | 3%nat => ls <- getList (getList getNat) ;; de <- getQ ;; ret (DLev ls de)
    | 4%nat => lp <- getList (getPair getZ getQ) ;; de <- getQ ;; ret (DOrd lp de)
    | 5%nat => a <- getQ ;; b <- getQ ;; p <- getSpec f ;; c <- getSpec f ;; ret (DComb a b p c)
    | _ => fun _ => None
    end
  end.
Definition getUnitQ : P unitq := s <- getQ ;; e <- getQ ;; c <- getOpt getZ ;; ret (mkUQ s e c).

Definition run_dissim (fn : nat) : list Z -> list Z :=
  match fn with
  | 0%nat => (* one description, many unit pairs *)
    finish (s <- getSpec 4 ;; ps <- getList (getPair getUnitQ getUnitQ) ;; ret (s, ps))
           (fun '(s, ps) => flat_map (fun p => putQ (deval s (fst p) (snd p))) ps)
  | 1%nat => (* Levenshtein distances *)
    finish (ps <- getList (getPair (getList getNat) (getList getNat)) ;; ret ps)
           (fun ps => flat_map (fun p => [Z.of_nat (lev (fst p) (snd p))]) ps)
  | _ => fun _ => [-2]
  end.
