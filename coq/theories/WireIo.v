(* Wire functions of the I/O models (C18). *)
From Coq Require Import List Arith ZArith QArith Lia Bool.
From PGA Require Import Wire WireMisc Io.Csv Io.Tiers.
Import ListNotations.
Local Open Scope Z_scope.

Definition getText : P (list nat) := getList getNat.
Definition putText (t : list nat) : list Z := putList (fun c => [Z.of_nat c]) t.
Definition getInterval : P interval := a <- getQ ;; b <- getQ ;; m <- getText ;; ret (mkIv a b m).
Definition getTier : P tier := n <- getText ;; l <- getList getInterval ;; ret (mkTier n l).
Definition putAdd (a : add_) : list Z := putQ (fst (fst a)) ++ putQ (snd (fst a)) ++ putText (snd a).

Definition run_io (fn : nat) : list Z -> list Z :=
  match fn with
  | 0%nat => (* csv writer *)
    finish (d <- getNat ;; rows <- getList (getList getText) ;; ret (d, rows)) (fun '(d, rows) => putText (wfile d rows))
  | 1%nat => (* csv reader *)
    finish (d <- getNat ;; t <- getText ;; ret (d, t)) (fun '(d, t) => putList (putList putText) (read d t))
  | 2%nat => (* TextGrid (0) / ELAN (1) tier import *)
    finish (k <- getNat ;; tiers <- getList getTier ;; sel <- getOpt (getList getText) ;; ut <- getBool ;; ret (k, tiers, sel, ut))
           (fun '(k, tiers, sel, ut) => putList putAdd (match k with O => textgrid_adds tiers sel ut | _ => elan_adds tiers sel ut end))
  | 3%nat => (* from_csv row handling *)
    finish (prec <- getQ ;; disc <- getBool ;; rows <- getList (a <- getText ;; l <- getText ;; s <- getQ ;; e <- getQ ;; ret (a, l, s, e)) ;; ret (prec, disc, rows))
           (fun '(prec, disc, rows) => match csv_rows prec disc rows with
                                       | Loaded l => 1 :: putList (fun r => putText (fst (fst (fst r))) ++ putText (snd (fst (fst r))) ++ putQ (snd (fst r)) ++ putQ (snd r)) l
                                       | Rejected => [0] end)
  | _ => fun _ => [-2]
  end.
