From Coq Require Import List Arith Lia Bool.
Import ListNotations.

(* C14: continua own mutable containers; copies must not share them.  A small heap model and the separation proofs. *)

Definition loc := nat.
Definition heap := list (list nat).                      (* location i holds a set of items, represented as a list *)
Record cobj := mkObj { ann_loc : loc; cat_loc : loc }.   (* a continuum: its annotation store and its category store *)
Definition hget (h : heap) (l : loc) : list nat := nth l h [].
Fixpoint hset (h : heap) (l : loc) (v : list nat) : heap :=
  match h, l with [], _ => [] | _ :: t, O => v :: t | x :: t, S l' => x :: hset t l' v end.
Definition alloc (h : heap) (v : list nat) : heap * loc := (h ++ [v], length h).

(* operations of the library that create continua, as heap transformers *)
Definition new_cont (h : heap) : heap * cobj :=
  let (h1, a) := alloc h [] in let (h2, c) := alloc h1 [] in (h2, mkObj a c).
Definition copy_cont (h : heap) (o : cobj) : heap * cobj :=                      (* Continuum.copy (after the fix): both stores copied *)
  let (h1, a) := alloc h (hget h (ann_loc o)) in let (h2, c) := alloc h1 (hget h (cat_loc o)) in (h2, mkObj a c).
Definition derive_repaired (h : heap) (ref : cobj) : heap * cobj :=              (* corpus_from_reference after the fix: fresh category set *)
  let (h1, a) := alloc h [] in let (h2, c) := alloc h1 (hget h (cat_loc ref)) in (h2, mkObj a c).
Definition derive_faithful (h : heap) (ref : cobj) : heap * cobj :=              (* corpus_from_reference as it was: SHARES the reference's category set *)
  let (h1, a) := alloc h [] in (h1, mkObj a (cat_loc ref)).
(* mutation through an object: add an item to its annotations / categories *)
Definition add_ann (h : heap) (o : cobj) (x : nat) : heap := hset h (ann_loc o) (x :: hget h (ann_loc o)).
Definition add_cat (h : heap) (o : cobj) (x : nat) : heap := hset h (cat_loc o) (x :: hget h (cat_loc o)).

(* what an object exposes *)
Definition view (h : heap) (o : cobj) : list nat * list nat := (hget h (ann_loc o), hget h (cat_loc o)).
(* a world: a heap and the live objects; well-formed when all locations are allocated and pairwise distinct (separation) *)
Definition locs (objs : list cobj) : list loc := flat_map (fun o => [ann_loc o; cat_loc o]) objs.
Definition separated (h : heap) (objs : list cobj) : Prop := NoDup (locs objs) /\ forall l, In l (locs objs) -> l < length h.

(* ---------- heap lemmas ---------- *)

Lemma hget_hset_same h l v : l < length h -> hget (hset h l v) l = v.
Proof.
  unfold hget. revert l. induction h as [|x t IH]; intros l Hlt; simpl in *.
  - lia.
  - destruct l as [|l']; simpl.
    + reflexivity.
    + apply IH. lia.
Qed.

Lemma hget_hset_other h l l' v : l <> l' -> hget (hset h l v) l' = hget h l'.
Proof.
  unfold hget. revert l l'. induction h as [|x t IH]; intros l l' Hne; simpl.
  - destruct l; reflexivity.
  - destruct l as [|k]; destruct l' as [|k']; simpl.
    + congruence.
    + reflexivity.
    + reflexivity.
    + apply IH. lia.
Qed.

Lemma hset_length h l v : length (hset h l v) = length h.
Proof.
  revert l. induction h as [|x t IH]; intros l; simpl.
  - destruct l; reflexivity.
  - destruct l as [|l']; simpl.
    + reflexivity.
    + rewrite IH. reflexivity.
Qed.

Lemma hget_alloc_old h v l : l < length h -> hget (fst (alloc h v)) l = hget h l.
Proof.
  intros Hlt. unfold alloc, hget. simpl. apply app_nth1. exact Hlt.
Qed.

Lemma hget_alloc_new h v : hget (h ++ [v]) (length h) = v.
Proof.
  unfold hget. rewrite app_nth2 by lia. rewrite Nat.sub_diag. reflexivity.
Qed.

Lemma hget_app_old h v l : l < length h -> hget (h ++ [v]) l = hget h l.
Proof.
  intros Hlt. unfold hget. apply app_nth1. exact Hlt.
Qed.

(* ---------- locations of live objects ---------- *)

Lemma locs_cons o objs : locs (o :: objs) = ann_loc o :: cat_loc o :: locs objs.
Proof. reflexivity. Qed.

Lemma in_locs p objs : In p objs -> In (ann_loc p) (locs objs) /\ In (cat_loc p) (locs objs).
Proof.
  intros Hin. unfold locs. split; apply in_flat_map; exists p; split; try exact Hin; simpl; auto.
Qed.

Lemma separated_distinct objs p o :
  NoDup (locs objs) -> In p objs -> In o objs -> p <> o ->
  ann_loc p <> ann_loc o /\ ann_loc p <> cat_loc o /\ cat_loc p <> ann_loc o /\ cat_loc p <> cat_loc o.
Proof.
  induction objs as [|a objs IH]; intros Hnd Hp Ho Hne.
  - destruct Hp.
  - rewrite locs_cons in Hnd.
    inversion Hnd as [|x1 l1 Hna Hnd1]; subst.
    inversion Hnd1 as [|x2 l2 Hnc Hnd2]; subst.
    destruct Hp as [Hp|Hp]; destruct Ho as [Ho|Ho].
    + subst. congruence.
    + subst a. destruct (in_locs o objs Ho) as [Hoa Hoc].
      repeat split; intros Heq.
      * apply Hna. right. rewrite Heq. exact Hoa.
      * apply Hna. right. rewrite Heq. exact Hoc.
      * apply Hnc. rewrite Heq. exact Hoa.
      * apply Hnc. rewrite Heq. exact Hoc.
    + subst a. destruct (in_locs p objs Hp) as [Hpa Hpc].
      repeat split; intros Heq.
      * apply Hna. right. rewrite <- Heq. exact Hpa.
      * apply Hnc. rewrite <- Heq. exact Hpa.
      * apply Hna. right. rewrite <- Heq. exact Hpc.
      * apply Hnc. rewrite <- Heq. exact Hpc.
    + apply IH; assumption.
Qed.

(* ---------- allocation of a fresh object: the common core of the three repaired constructors ---------- *)

Lemma fresh_obj_separated h objs v1 v2 :
  separated h objs ->
  separated ((h ++ [v1]) ++ [v2]) (mkObj (length h) (length (h ++ [v1])) :: objs) /\
  view ((h ++ [v1]) ++ [v2]) (mkObj (length h) (length (h ++ [v1]))) = (v1, v2) /\
  forall p, In p objs -> view ((h ++ [v1]) ++ [v2]) p = view h p.
Proof.
  intros [Hnd Hlt].
  assert (Hlen1 : length (h ++ [v1]) = S (length h)) by (rewrite app_length; simpl; lia).
  assert (Hold : forall l, l < length h -> hget ((h ++ [v1]) ++ [v2]) l = hget h l).
  { intros l Hl. rewrite hget_app_old by lia. apply hget_app_old. exact Hl. }
  split; [|split].
  - split.
    + rewrite locs_cons. simpl ann_loc. simpl cat_loc.
      constructor.
      * intros [Heq|Hin].
        -- lia.
        -- apply Hlt in Hin. lia.
      * constructor.
        -- intros Hin. apply Hlt in Hin. lia.
        -- exact Hnd.
    + intros l Hin. rewrite locs_cons in Hin. simpl ann_loc in Hin. simpl cat_loc in Hin.
      rewrite app_length, Hlen1. simpl length.
      destruct Hin as [Heq|[Heq|Hin]].
      * lia.
      * lia.
      * apply Hlt in Hin. lia.
  - unfold view. simpl ann_loc. simpl cat_loc. f_equal.
    + rewrite hget_app_old by lia. apply hget_alloc_new.
    + apply hget_alloc_new.
  - intros p Hp. destruct (in_locs p objs Hp) as [Hpa Hpc].
    unfold view. rewrite (Hold _ (Hlt _ Hpa)), (Hold _ (Hlt _ Hpc)). reflexivity.
Qed.

(* every repaired constructor keeps the world separated and gives the new object the expected content, leaving every old view unchanged *)
Theorem new_cont_separated h objs : separated h objs ->
  let (h', o) := new_cont h in separated h' (o :: objs) /\ view h' o = ([], []) /\ forall p, In p objs -> view h' p = view h p.
Proof.
  intros Hsep. unfold new_cont, alloc. apply fresh_obj_separated. exact Hsep.
Qed.

Theorem copy_cont_separated h objs o0 : separated h objs -> In o0 objs ->
  let (h', o) := copy_cont h o0 in separated h' (o :: objs) /\ view h' o = view h o0 /\ forall p, In p objs -> view h' p = view h p.
Proof.
  intros Hsep _. unfold copy_cont, alloc.
  apply (fresh_obj_separated h objs (hget h (ann_loc o0)) (hget h (cat_loc o0)) Hsep).
Qed.

Theorem derive_repaired_separated h objs ref : separated h objs -> In ref objs ->
  let (h', o) := derive_repaired h ref in separated h' (o :: objs) /\ view h' o = ([], snd (view h ref)) /\ forall p, In p objs -> view h' p = view h p.
Proof.
  intros Hsep _. unfold derive_repaired, alloc.
  apply (fresh_obj_separated h objs [] (hget h (cat_loc ref)) Hsep).
Qed.

(* MUTATION CONFINED: in a separated world, writing through one object changes no other object's view *)
Theorem add_ann_confined h objs o x : separated h objs -> In o objs ->
  separated (add_ann h o x) objs /\ forall p, In p objs -> p <> o -> view (add_ann h o x) p = view h p.
Proof.
  intros [Hnd Hlt] Ho. unfold add_ann. split.
  - split.
    + exact Hnd.
    + intros l Hin. rewrite hset_length. apply Hlt. exact Hin.
  - intros p Hp Hne.
    destruct (separated_distinct objs p o Hnd Hp Ho Hne) as [Haa [Hac [Hca Hcc]]].
    unfold view. rewrite !hget_hset_other by congruence. reflexivity.
Qed.

Theorem add_cat_confined h objs o x : separated h objs -> In o objs ->
  separated (add_cat h o x) objs /\ forall p, In p objs -> p <> o -> view (add_cat h o x) p = view h p.
Proof.
  intros [Hnd Hlt] Ho. unfold add_cat. split.
  - split.
    + exact Hnd.
    + intros l Hin. rewrite hset_length. apply Hlt. exact Hin.
  - intros p Hp Hne.
    destruct (separated_distinct objs p o Hnd Hp Ho Hne) as [Haa [Hac [Hca Hcc]]].
    unfold view. rewrite !hget_hset_other by congruence. reflexivity.
Qed.

(* REFUTATION of the original corpus_from_reference: adding a category to the derived corpus changes the reference's view *)
Theorem derive_faithful_aliasing_refuted :
  exists h ref x, let (h', o) := derive_faithful h ref in view (add_cat h' o x) ref <> view h' ref.
Proof.
  exists [[]; []], (mkObj 0 1), 7. vm_compute. discriminate.
Qed.

Print Assumptions hget_hset_same.
Print Assumptions hget_hset_other.
Print Assumptions hset_length.
Print Assumptions hget_alloc_old.
Print Assumptions separated_distinct.
Print Assumptions new_cont_separated.
Print Assumptions copy_cont_separated.
Print Assumptions derive_repaired_separated.
Print Assumptions add_ann_confined.
Print Assumptions add_cat_confined.
Print Assumptions derive_faithful_aliasing_refuted.
