From Coq Require Import List Arith ZArith QArith Qround Lia Lqa Bool Permutation.
From PGAwip Require Import Shuffle.
Import ListNotations.
Local Open Scope Q_scope.

(* Proofs about the model of ShuffleContinuumSampler (Shuffle.v) - C16. *)

Local Arguments remove_pivot : simpl never.
Local Arguments qtrunc : simpl never.
Local Arguments piece : simpl never.
Local Arguments shift_unit : simpl never.

(* ---------- boolean comparisons ---------- *)
Lemma Qle_bool_false a b : Qle_bool a b = false -> b < a.
Proof.
  intros H. destruct (Qlt_le_dec b a) as [L|L]; [exact L|].
  apply Qle_bool_iff in L. congruence.
Qed.
Lemma Qlt_bool_true a b : Qlt_bool a b = true -> a < b.
Proof. unfold Qlt_bool. intros H. apply negb_true_iff in H. apply Qle_bool_false; exact H. Qed.
Lemma Qlt_bool_false a b : Qlt_bool a b = false -> b <= a.
Proof. unfold Qlt_bool. intros H. apply negb_false_iff in H. apply Qle_bool_iff; exact H. Qed.

Lemma qmaxq_le x a b : qmaxq a b <= x <-> (a <= x /\ b <= x).
Proof.
  unfold qmaxq. destruct (Qle_bool a b) eqn:E;
    [apply Qle_bool_iff in E | apply Qle_bool_false in E]; split; intros H; try split; lra.
Qed.
Lemma qmaxq_lt x a b : qmaxq a b < x <-> (a < x /\ b < x).
Proof.
  unfold qmaxq. destruct (Qle_bool a b) eqn:E;
    [apply Qle_bool_iff in E | apply Qle_bool_false in E]; split; intros H; try split; lra.
Qed.
Lemma qminq_lt x a b : x < qminq a b <-> (x < a /\ x < b).
Proof.
  unfold qminq. destruct (Qle_bool a b) eqn:E;
    [apply Qle_bool_iff in E | apply Qle_bool_false in E]; split; intros H; try split; lra.
Qed.

(* ---------- availability over lists ---------- *)
Lemma available_nil x : available x [] <-> False.
Proof. unfold available. split; [intros [sg [[] _]] | intros []]. Qed.
Lemma available_cons x sg l : available x (sg :: l) <-> (in_seg x sg \/ available x l).
Proof.
  unfold available. split.
  - intros [sg' [[E|I] H]]; [subst; left; exact H | right; exists sg'; split; assumption].
  - intros [H|[sg' [I H]]]; [exists sg; split; [left; reflexivity | exact H] | exists sg'; split; [right; exact I | exact H]].
Qed.
Lemma available_app x l1 l2 : available x (l1 ++ l2) <-> (available x l1 \/ available x l2).
Proof.
  unfold available. split.
  - intros [sg [I H]]. apply in_app_or in I. destruct I as [I|I]; [left|right]; exists sg; split; assumption.
  - intros [[sg [I H]]|[sg [I H]]]; exists sg; (split; [apply in_or_app; auto | exact H]).
Qed.
Lemma available_flat_map x (f : seg -> list seg) l :
  available x (flat_map f l) <-> exists sg, In sg l /\ available x (f sg).
Proof.
  unfold available. split.
  - intros [sg' [I H]]. apply in_flat_map in I. destruct I as [sg [I1 I2]].
    exists sg. split; [exact I1|]. exists sg'. split; assumption.
  - intros [sg [I1 [sg' [I2 H]]]]. exists sg'. split; [|exact H].
    apply in_flat_map. exists sg. split; assumption.
Qed.
Lemma available_rev x l : available x (rev l) <-> available x l.
Proof.
  unfold available. split; intros [sg [I H]]; exists sg; (split; [|exact H]).
  - apply in_rev; exact I.
  - apply in_rev in I; exact I.
Qed.

(* ---------- removal of one zone (repaired) ---------- *)
Lemma piece_spec p dist sg x : 0 <= dist ->
  (available x (piece true p dist sg) <-> (in_seg x sg /\ far dist p x)).
Proof.
  intros Hd. destruct sg as [s e]. unfold piece.
  destruct (Qle_bool (p - dist) s) eqn:E1; [apply Qle_bool_iff in E1 | apply Qle_bool_false in E1].
  - destruct (Qle_bool e (p + dist)) eqn:E2; [apply Qle_bool_iff in E2 | apply Qle_bool_false in E2].
    + rewrite available_nil. unfold in_seg, far; simpl. split; [intros [] | intros H; lra].
    + rewrite available_cons, available_nil. unfold in_seg, far; simpl. rewrite qmaxq_le.
      split; intros H; lra.
  - destruct (Qlt_bool (p + dist) e) eqn:E2; [apply Qlt_bool_true in E2 | apply Qlt_bool_false in E2].
    + rewrite !available_cons, available_nil. unfold in_seg, far; simpl. split; intros H; lra.
    + rewrite available_cons, available_nil. unfold in_seg, far; simpl. rewrite qminq_lt.
      split; intros H; lra.
Qed.

Theorem remove_pivot_spec p dist segs x : 0 <= dist ->
  (available x (remove_pivot true p dist segs) <-> (available x segs /\ far dist p x)).
Proof.
  intros Hd. unfold remove_pivot. rewrite available_flat_map. split.
  - intros [sg [I H]]. apply piece_spec in H; [|exact Hd]. destruct H as [H1 H2].
    split; [|exact H2]. exists sg. split; [apply in_rev; exact I | exact H1].
  - intros [[sg [I H1]] H2]. exists sg. split; [apply in_rev in I; exact I|].
    apply piece_spec; [exact Hd|]. split; assumption.
Qed.

(* segments stay well-formed (start < end) *)
Definition wf_segs (segs : list seg) : Prop := forall sg, In sg segs -> fst sg < snd sg.

Lemma piece_wf p dist sg sg' : 0 <= dist -> fst sg < snd sg -> In sg' (piece true p dist sg) -> fst sg' < snd sg'.
Proof.
  intros Hd W I. destruct sg as [s e]. simpl in W. unfold piece in I.
  destruct (Qle_bool (p - dist) s) eqn:E1; [apply Qle_bool_iff in E1 | apply Qle_bool_false in E1].
  - destruct (Qle_bool e (p + dist)) eqn:E2; [apply Qle_bool_iff in E2 | apply Qle_bool_false in E2].
    + destruct I.
    + destruct I as [I|[]]. subst sg'. simpl. apply qmaxq_lt. split; lra.
  - destruct (Qlt_bool (p + dist) e) eqn:E2; [apply Qlt_bool_true in E2 | apply Qlt_bool_false in E2].
    + destruct I as [I|[I|[]]]; subst sg'; simpl; lra.
    + destruct I as [I|[]]. subst sg'. simpl. apply qminq_lt. split; lra.
Qed.

Theorem remove_pivot_wf p dist segs : 0 <= dist -> wf_segs segs -> wf_segs (remove_pivot true p dist segs).
Proof.
  intros Hd W sg' I. unfold remove_pivot in I. apply in_flat_map in I. destruct I as [sg [I1 I2]].
  apply (piece_wf p dist sg sg' Hd); [|exact I2]. apply W. apply in_rev in I1. exact I1.
Qed.

(* ---------- after removing several zones ---------- *)
Lemma fold_remove_spec dist ps : 0 <= dist -> forall segs x,
  (available x (fold_left (fun av p => remove_pivot true p dist av) ps segs)
   <-> (available x segs /\ forall p, In p ps -> far dist p x)).
Proof.
  intros Hd. induction ps as [|p ps IH]; intros segs x; simpl.
  - split; [intros H; split; [exact H | intros p []] | intros [H _]; exact H].
  - rewrite IH. rewrite remove_pivot_spec by exact Hd. split.
    + intros [[A B] C]. split; [exact A|]. intros q [E|I]; [subst q; exact B | apply C; exact I].
    + intros [A C]. split; [split; [exact A | apply C; left; reflexivity] | intros q I; apply C; right; exact I].
Qed.

Theorem avail_after_spec dist binf bsup ps x : 0 <= dist ->
  (available x (avail_after true dist binf bsup ps) <-> ((binf <= x /\ x < bsup) /\ forall p, In p ps -> far dist p x)).
Proof.
  intros Hd. unfold avail_after. rewrite fold_remove_spec by exact Hd.
  rewrite available_cons, available_nil. unfold in_seg; simpl. tauto.
Qed.

(* ---------- refutations on the original code ---------- *)
Theorem widening_refuted :
  exists dist binf bsup p1 p2 x,
    0 <= dist /\ available x (avail_after false dist binf bsup [p1; p2]) /\ ~ far dist p1 x.
Proof.
  exists (5#2), 0, 100, 50, 10, (101#2).
  split; [unfold Qle; simpl; lia|]. split.
  - unfold available. eexists. split.
    + vm_compute. left; reflexivity.
    + unfold in_seg; simpl. split; [unfold Qle; simpl; lia | unfold Qlt; simpl; lia].
  - unfold far. intros [H|H]; revert H; [unfold Qlt | unfold Qle]; simpl; lia.
Qed.

Theorem int_pivot_refuted :
  exists dist binf bsup (gt : list (list unitS)) st ps anns st',
    0 <= dist /\ contract true true dist binf bsup 2 [(binf, bsup)] st /\
    sample_pass true true dist binf bsup gt 2 [(binf, bsup)] st = Some (ps, anns, st') /\
    exists p q, map fst ps = [p; q] /\ ~ far dist p q.
Proof.
  exists (5#2), 0, 100, [[]; []],
    [Choice 0; Uniform (186#5); Choice 0; Choice 1; Uniform (397#10); Choice 0].
  eexists. eexists. eexists.
  split; [unfold Qle; simpl; lia|]. split; [|split].
  - cbn [contract]. split.
    + eexists. split; [reflexivity|]. unfold in_seg; simpl.
      split; [unfold Qle; simpl; lia | unfold Qlt; simpl; lia].
    + assert (E : remove_pivot true (qtrunc (186#5)) (5#2) [(0, 100)] = [(0, 69 # 2); (79 # 2, 100)])
        by (vm_compute; reflexivity).
      rewrite E. split; [|exact I].
      eexists. split; [reflexivity|]. unfold in_seg; simpl.
      split; [unfold Qle; simpl; lia | unfold Qlt; simpl; lia].
  - vm_compute. reflexivity.
  - exists 37, 39. split; [reflexivity|].
    unfold far. intros [H|H]; revert H; [unfold Qlt | unfold Qle]; simpl; lia.
Qed.

(* ---------- float mode, repaired: separation of the pivots ---------- *)
Lemma nth_error_In_seg x (avail : list seg) i sg : nth_error avail i = Some sg -> in_seg x sg -> available x avail.
Proof. intros H1 H2. exists sg. split; [eapply nth_error_In; exact H1 | exact H2]. Qed.

Lemma pivots_separated_gen dist binf bsup gt : 0 <= dist ->
  forall k avail seen st ps anns st',
  (forall x, available x avail -> (binf <= x /\ x < bsup) /\ forall p, In p seen -> far dist p x) ->
  contract true false dist binf bsup k avail st ->
  sample_pass true false dist binf bsup gt k avail st = Some (ps, anns, st') ->
  (forall p b, In (p, b) ps -> binf <= p /\ p < bsup) /\
  (forall i p, nth_error ps i = Some (p, true) ->
      (forall q, In q seen -> far dist q p) /\
      (forall j q b, (j < i)%nat -> nth_error ps j = Some (q, b) -> far dist q p)).
Proof.
  intros Hd. induction k as [|k IH]; intros avail seen st ps anns st' Inv C S.
  - simpl in S. inversion S; subst. split; [intros p b [] | intros [|i] p H; discriminate H].
  - destruct avail as [|sg0 rest].
    + cbn [contract] in C.
      destruct st as [|[i0|x] st]; try contradiction.
      destruct st as [|[a|y] st]; try contradiction.
      destruct C as [Bx C]. cbn [sample_pass draw_pivot] in S.
      destruct (sample_pass true false dist binf bsup gt k [] st) as [[[ps' anns'] st'']|] eqn:R; [|discriminate S].
      inversion S; subst; clear S.
      assert (Inv' : forall x0, available x0 [] -> (binf <= x0 /\ x0 < bsup) /\ forall p, In p (seen ++ [x]) -> far dist p x0)
        by (intros x0 H; apply available_nil in H; destruct H).
      destruct (IH [] (seen ++ [x]) st ps' anns' st' Inv' C R) as [IH1 IH2].
      split.
      * intros p b [E|I]; [inversion E; subst; exact Bx | eapply IH1; exact I].
      * intros [|i] p H; [discriminate H|]. simpl in H. destruct (IH2 i p H) as [F1 F2]. split.
        -- intros q I. apply F1. apply in_or_app. left; exact I.
        -- intros [|j] q b L Hj; simpl in Hj.
           ++ inversion Hj; subst. apply F1. apply in_or_app. right; left; reflexivity.
           ++ apply (F2 j q b); [lia | exact Hj].
    + cbn [contract] in C.
      destruct st as [|[i0|x0] st]; try contradiction.
      destruct st as [|[a0|x] st]; try contradiction.
      destruct st as [|[a|y] st]; try contradiction.
      destruct C as [[sg [Hn Hs]] C]. cbn [sample_pass draw_pivot] in S.
      set (avail := sg0 :: rest) in *.
      destruct (sample_pass true false dist binf bsup gt k (remove_pivot true x dist avail) st)
        as [[[ps' anns'] st'']|] eqn:R; [|discriminate S].
      inversion S; subst ps anns st''; clear S.
      assert (Ax : available x avail) by (eapply nth_error_In_seg; eassumption).
      destruct (Inv x Ax) as [Bx Fx].
      assert (Inv' : forall x1, available x1 (remove_pivot true x dist avail) ->
                (binf <= x1 /\ x1 < bsup) /\ forall p, In p (seen ++ [x]) -> far dist p x1).
      { intros x1 H. apply remove_pivot_spec in H; [|exact Hd]. destruct H as [H1 H2].
        destruct (Inv x1 H1) as [B1 F1]. split; [exact B1|].
        intros p I. apply in_app_or in I. destruct I as [I|[E|[]]]; [apply F1; exact I | subst p; exact H2]. }
      destruct (IH _ (seen ++ [x]) st ps' anns' st' Inv' C R) as [IH1 IH2].
      split.
      * intros p b [E|I]; [inversion E; subst; exact Bx | eapply IH1; exact I].
      * intros [|i] p H; simpl in H.
        -- inversion H; subst p. split; [exact Fx | intros j q b L; lia].
        -- destruct (IH2 i p H) as [F1 F2]. split.
           ++ intros q I. apply F1. apply in_or_app. left; exact I.
           ++ intros [|j] q b L Hj; simpl in Hj.
              ** inversion Hj; subst. apply F1. apply in_or_app. right; left; reflexivity.
              ** apply (F2 j q b); [lia | exact Hj].
Qed.

Theorem pivots_separated_float dist binf bsup gt k prev st ps anns st' :
  0 <= dist -> binf < bsup ->
  contract true false dist binf bsup k (avail_after true dist binf bsup prev) st ->
  sample_pass true false dist binf bsup gt k (avail_after true dist binf bsup prev) st = Some (ps, anns, st') ->
  (forall p b, In (p, b) ps -> binf <= p /\ p < bsup) /\
  (forall i p, nth_error ps i = Some (p, true) ->
      (forall q, In q prev -> far dist q p) /\ (forall j q b, (j < i)%nat -> nth_error ps j = Some (q, b) -> far dist q p)).
Proof.
  intros Hd Hb C S.
  apply (pivots_separated_gen dist binf bsup gt Hd k (avail_after true dist binf bsup prev) prev st ps anns st'); [|exact C|exact S].
  intros x H. apply avail_after_spec in H; [exact H | exact Hd].
Qed.

(* ---------- structure of a sample: wrapped translations ---------- *)
Lemma shift_unit_duration p binf bsup u : se (shift_unit p binf bsup u) - ss (shift_unit p binf bsup u) == se u - ss u.
Proof. unfold shift_unit. destruct (Qlt_bool bsup (ss u + p)); simpl; ring. Qed.
Lemma shift_unit_label p binf bsup u : sl (shift_unit p binf bsup u) = sl u.
Proof. unfold shift_unit. destruct (Qlt_bool bsup (ss u + p)); reflexivity. Qed.
Lemma shift_unit_start p binf bsup u :
  (ss u + p <= bsup -> ss (shift_unit p binf bsup u) == ss u + p) /\
  (bsup < ss u + p -> ss (shift_unit p binf bsup u) == ss u + p - (bsup - binf)).
Proof.
  unfold shift_unit.
  destruct (Qlt_bool bsup (ss u + p)) eqn:E; [apply Qlt_bool_true in E | apply Qlt_bool_false in E];
    simpl; split; intros H; try lra; ring.
Qed.

Theorem sample_pass_structure repaired int_mode dist binf bsup gt k avail st ps anns st' :
  sample_pass repaired int_mode dist binf bsup gt k avail st = Some (ps, anns, st') ->
  length ps = k /\ length anns = k /\
  forall i a us, nth_error anns i = Some (a, us) ->
    exists p b, nth_error ps i = Some (p, b) /\ us = map (shift_unit p binf bsup) (nth a gt []) /\ length us = length (nth a gt []).
Proof.
  revert avail st ps anns st'. induction k as [|k IH]; intros avail st ps anns st' S.
  - simpl in S. inversion S; subst. split; [reflexivity|]. split; [reflexivity|].
    intros [|i] a us H; discriminate H.
  - cbn [sample_pass] in S.
    destruct (draw_pivot repaired int_mode dist binf bsup avail st) as [[[p avail'] [|[a0|y] st1]]|] eqn:D;
      try discriminate S.
    destruct (sample_pass repaired int_mode dist binf bsup gt k avail' st1) as [[[ps' anns'] st'']|] eqn:R;
      [|discriminate S].
    inversion S; subst ps anns st''; clear S.
    destruct (IH _ _ _ _ _ R) as [L1 [L2 IH3]].
    split; [simpl; rewrite L1; reflexivity|]. split; [simpl; rewrite L2; reflexivity|].
    intros [|i] a us H; simpl in H.
    + inversion H; subst a us. eexists p, _. split; [reflexivity|]. split; [reflexivity|]. apply map_length.
    + destruct (IH3 i a us H) as [p' [b' [H1 H2]]]. exists p', b'. split; [exact H1 | exact H2].
Qed.

(* in integer mode every pivot drawn from the segments is a whole number *)
Theorem int_pivots_whole repaired dist binf bsup gt k avail st ps anns st' :
  sample_pass repaired true dist binf bsup gt k avail st = Some (ps, anns, st') ->
  forall p, In (p, true) ps -> exists z : Z, p = inject_Z z.
Proof.
  revert avail st ps anns st'. induction k as [|k IH]; intros avail st ps anns st' S p I.
  - simpl in S. inversion S; subst. destruct I.
  - cbn [sample_pass] in S.
    destruct (draw_pivot repaired true dist binf bsup avail st) as [[[p0 avail'] [|[a0|y] st1]]|] eqn:D;
      try discriminate S.
    destruct (sample_pass repaired true dist binf bsup gt k avail' st1) as [[[ps' anns'] st'']|] eqn:R;
      [|discriminate S].
    inversion S; subst ps anns st''; clear S.
    destruct I as [E|I]; [|eapply IH; eassumption].
    destruct avail as [|sg0 rest]; [inversion E|].
    cbn [draw_pivot] in D.
    destruct st as [|[i0|x0] st]; try discriminate D.
    destruct st as [|[i1|x] st]; try discriminate D.
    inversion D; subst. inversion E; subst. unfold qtrunc. eexists; reflexivity.
Qed.

Print Assumptions piece_spec.
Print Assumptions remove_pivot_spec.
Print Assumptions remove_pivot_wf.
Print Assumptions avail_after_spec.
Print Assumptions widening_refuted.
Print Assumptions int_pivot_refuted.
Print Assumptions pivots_separated_float.
Print Assumptions shift_unit_duration.
Print Assumptions shift_unit_label.
Print Assumptions shift_unit_start.
Print Assumptions sample_pass_structure.
Print Assumptions int_pivots_whole.
