(* Extraction of the executable model. ExtrOcamlBasic only: bool, option, unit, list, prod, sumbool,
   sumor are mapped to OCaml's; nat, positive, Z stay the extracted inductive types. No Extract Constant. *)
From Coq Require Import Extraction ExtrOcamlBasic.
From PGA Require Import Run.
Extraction "model.ml" run_model.
