(* C06 - Seeded results are reproducible under any thread schedule.  Proofs in theories/Sched/SchedProofs.v.
   (partial: the model covers the scheduling logic - pure jobs, draws on the submitting thread, collection in submission order; races inside native
   code and third-party nondeterminism are covered only by the cross-schedule / cross-process comparison of the check.) *)
From Coq Require Import String List Arith Bool Permutation.
From PGA Require Import Sched.Sched Sched.SchedProofs.
From PGAprops Require Import PoolGen.
Import ListNotations.

(* FULL (logic part): whatever order the workers execute the submitted jobs in, and however many workers there are, the collected results,
   their order and the final random state are those of the sequential run *)
Theorem C06_schedule_independent (A R St : Type) (draw : St -> A * St) (job : A -> R) sigma n arg0 s :
  Permutation sigma (seq 0 (S n)) ->
  pooled A R St draw job sigma n arg0 s =
  (map Some (fst (sequential A R St draw job n arg0 s)), snd (sequential A R St draw job n arg0 s)).
Proof. exact (schedule_independent A R St draw job sigma n arg0 s). Qed.
Theorem C06_two_schedules_agree (A R St : Type) (draw : St -> A * St) (job : A -> R) sigma1 sigma2 n arg0 s :
  Permutation sigma1 (seq 0 (S n)) -> Permutation sigma2 (seq 0 (S n)) ->
  pooled A R St draw job sigma1 n arg0 s = pooled A R St draw job sigma2 n arg0 s.
Proof. exact (two_schedules_agree A R St draw job sigma1 sigma2 n arg0 s). Qed.
(* re-execution of a job is harmless: only coverage of the submitted jobs matters *)
Theorem C06_coverage_suffices (A R : Type) (job : A -> R) sigma (args : list A) d :
  (forall i, i < length args -> In i sigma) -> (forall i, In i sigma -> i < length args) ->
  run_tasks A R job sigma args d = map (fun a => Some (job a)) args.
Proof. exact (run_tasks_covering A R job sigma args d). Qed.

(* SENSITIVITY: if the sample were drawn inside the job, from the random state shared by the workers, two schedules could differ:
   the model can exhibit the failure the property fears, so the theorem above is not vacuous *)
Theorem C06_draws_in_worker_would_be_schedule_dependent :
  exists sigma1 sigma2,
    Permutation sigma1 (seq 0 2) /\ Permutation sigma2 (seq 0 2) /\
    fst (run_tasks_drawing nat nat nat (fun s => (s, S s)) (fun a => a) sigma1 2 0) <>
    fst (run_tasks_drawing nat nat nat (fun s => (s, S s)) (fun a => a) sigma2 2 0).
Proof. exact draws_in_worker_schedule_dependent. Qed.

(* the one shared cell the samples read (best_window_size, copied into every sample): written on the main thread BEFORE the first draw - as the
   source does, see C06_src_jobs_write_nothing - the samples are those of a sequential run; a write nobody reads is harmless wherever it falls;
   a write by a worker that the draws DO read makes the samples depend on the schedule *)
Theorem C06_cell_written_before_the_draws (A St C : Type) (draw : C -> St -> A * St) (write : C -> C) n c s :
  fst (interleaved A St C draw write (EWrite :: repeat EDraw n) c s) = fst (draws A St (draw (write c)) n s).
Proof. exact (write_first_is_sequential A St C draw write n c s). Qed.
Theorem C06_unread_write_is_harmless (A St C : Type) (draw : C -> St -> A * St) (write : C -> C) :
  (forall c c' s, draw c s = draw c' s) ->
  forall evs c s, fst (interleaved A St C draw write evs c s) = fst (interleaved A St C draw write (filter is_draw evs) c s).
Proof. exact (unread_write_is_harmless A St C draw write). Qed.
Theorem C06_shared_write_in_worker_would_be_schedule_dependent :
  exists evs1 evs2,
    filter is_draw evs1 = filter is_draw evs2 /\
    fst (interleaved nat nat nat (fun c s => (c + s, S s)) (fun _ => 7) evs1 0 0) <>
    fst (interleaved nat nat nat (fun c s => (c + s, S s)) (fun _ => 7) evs2 0 0).
Proof. exact shared_write_in_worker_schedule_dependent. Qed.

Example C06_example :
  pooled nat nat nat (fun s => (s * 2, S s)) (fun a => a + 1) [2; 0; 1] 2 7 3 = ([Some 8; Some 7; Some 9], 5).
Proof. vm_compute. reflexivity. Qed.

(* ---------------------------------------------------------------------------------------------------------------------------------
   Tie to the source (re-proved on every run against genprops/PoolGen.v, read from the CURRENT continuum.py by harness/gen_pool.py): the pool
   section has the shape the schedule-independence theorems assume - every sample is drawn by sampler.sample_from_continuum INSIDE the argument
   list of p.submit, i.e. by the submitting thread and in submission order; the jobs receive (dissimilarity, continuum) only; results are
   collected by iterating the list of futures in submission order (not in completion order), for both batches. *)
Theorem C06_src_pool_section :
  pool_src =
  ["with ThreadPoolExecutor(max_workers=os.cpu_count()) as p"%string; "best_alignment_task = p.submit(job, *(dissimilarity, self))"%string;
   "result_pool = [p.submit(job, *(dissimilarity, sampler.sample_from_continuum)) for _ in range(n_samples)]"%string;
   "chance_best_alignments: List[Alignment] = []"%string;
   "chance_disorders: List[float] = []"%string;
   "best_alignment = best_alignment_task.result()"%string;
   "for (i, result) in enumerate(result_pool): [chance_best_alignments.append(result.result()); chance_disorders.append(chance_best_alignments[-1].disorder)]"%string;
   "if precision_level is not None: [if isinstance(precision_level, str): [precision_level = PRECISION_LEVEL[precision_level]]; assert 0 < precision_level < 1.0; variation_coeff = np.std(chance_disorders) / np.mean(chance_disorders); confidence = 1.96; required_samples = np.ceil((variation_coeff * confidence / precision_level) ** 2).astype(np.int32); if required_samples > n_samples: [result_pool = [p.submit(job, *(dissimilarity, sampler.sample_from_continuum)) for _ in range(required_samples - n_samples)]; for (i, result) in enumerate(result_pool): [chance_best_alignments.append(result.result())]]]"%string].
Proof. reflexivity. Qed.

(* the jobs only READ their arguments (each is a single call of an alignment routine on the continuum it was handed), and the one attribute of the
   input that samples copy - best_window_size - is measured by the submitting thread before the pool is created *)
Theorem C06_src_jobs_write_nothing :
  jobs_src =
  [("_compute_best_alignment_job"%string, "(dissimilarity, continuum) return continuum.get_best_alignment(dissimilarity)"%string);
   ("_compute_fast_alignment_job"%string, "(dissimilarity, continuum) if continuum.best_window_size == np.inf: [return continuum.get_best_alignment(dissimilarity)]; return continuum.get_fast_alignment(dissimilarity, continuum.best_window_size)"%string);
   ("_compute_gamma_k_job"%string, "(dissimilarity, alignment, category) return alignment.gamma_k_disorder(dissimilarity, category)"%string);
   ("_compute_soft_alignment_job"%string, "(dissimilarity, continuum) return continuum.get_best_soft_alignment(dissimilarity)"%string)] /\
  nth 7 before_pool_src ""%string = "if fast: [job = _compute_fast_alignment_job; self.measure_best_window_size(dissimilarity)]"%string /\
  length before_pool_src = 8.
Proof. repeat split. Qed.
