(* C14 - Computations never modify their inputs; derived continua are independent.  Proofs in theories/Heap/Heap.v.
   (partial: the theorems are about the SHARING STRUCTURE - which mutable containers each continuum owns; that the Python computations themselves
   write nothing is checked by before/after snapshots on every explored call, a functional model would make that part vacuous.) *)
From Coq Require Import List Arith Bool.
From PGA Require Import Heap.Heap.
Import ListNotations.

(* every constructor of the (repaired) library keeps the world separated: the new object owns fresh containers with the expected content and
   no existing object's view changes *)
Theorem C14_new_separated h objs : separated h objs ->
  let (h', o) := new_cont h in separated h' (o :: objs) /\ view h' o = ([], []) /\ forall p, In p objs -> view h' p = view h p.
Proof. exact (new_cont_separated h objs). Qed.
Theorem C14_copy_separated h objs o0 : separated h objs -> In o0 objs ->
  let (h', o) := copy_cont h o0 in separated h' (o :: objs) /\ view h' o = view h o0 /\ forall p, In p objs -> view h' p = view h p.
Proof. exact (copy_cont_separated h objs o0). Qed.
Theorem C14_derived_corpus_separated h objs ref : separated h objs -> In ref objs ->
  let (h', o) := derive_repaired h ref in separated h' (o :: objs) /\ view h' o = ([], snd (view h ref)) /\ forall p, In p objs -> view h' p = view h p.
Proof. exact (derive_repaired_separated h objs ref). Qed.

(* FULL: in a separated world, changing one continuum never changes another *)
Theorem C14_mutation_confined_annotations h objs o x : separated h objs -> In o objs ->
  separated (add_ann h o x) objs /\ forall p, In p objs -> p <> o -> view (add_ann h o x) p = view h p.
Proof. exact (add_ann_confined h objs o x). Qed.
Theorem C14_mutation_confined_categories h objs o x : separated h objs -> In o objs ->
  separated (add_cat h o x) objs /\ forall p, In p objs -> p <> o -> view (add_cat h o x) p = view h p.
Proof. exact (add_cat_confined h objs o x). Qed.

(* REFUTED for the original corpus_from_reference (repaired by a fix commit): the derived corpus shared the reference's category set *)
Theorem C14_original_corpus_aliases_reference :
  exists h ref x, let (h', o) := derive_faithful h ref in view (add_cat h' o x) ref <> view h' ref.
Proof. exact derive_faithful_aliasing_refuted. Qed.
