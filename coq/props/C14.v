(* C14 - Computations never modify their inputs; derived continua are independent.  Proofs in theories/Heap/Heap.v.
   (partial: the theorems are about the SHARING STRUCTURE - which mutable containers each continuum owns; that the Python computations themselves
   write nothing is checked by before/after snapshots on every explored call, a functional model would make that part vacuous.) *)
From Coq Require Import String List Arith Bool.
From PGA Require Import Heap.Heap.
From PGAprops Require Import ShapesGen.
Import ListNotations.

(* every constructor of the (repaired) library keeps the world separated: the new object owns fresh containers with the expected content and
   no existing object's view changes *)
Theorem C14_new_separated h objs : separated h objs ->
  let (h', o) := new_cont h in separated h' (o :: objs) /\ view h' o = ([], []) /\ forall p, In p objs -> view h' p = view h p.
Proof. exact (new_cont_separated h objs). Qed.
Theorem C14_copy_separated h objs o0 : separated h objs -> In o0 objs ->
  let (h', o) := copy_cont h o0 in separated h' (o :: objs) /\ view h' o = view h o0 /\ forall p, In p objs -> view h' p = view h p.
Proof. exact (copy_cont_separated h objs o0). Qed.
Theorem C14_derived_corpus_separated h objs ref : separated h objs -> In ref objs ->
  let (h', o) := derive_repaired h ref in separated h' (o :: objs) /\ view h' o = ([], snd (view h ref)) /\ forall p, In p objs -> view h' p = view h p.
Proof. exact (derive_repaired_separated h objs ref). Qed.

(* FULL: in a separated world, changing one continuum never changes another *)
Theorem C14_mutation_confined_annotations h objs o x : separated h objs -> In o objs ->
  separated (add_ann h o x) objs /\ forall p, In p objs -> p <> o -> view (add_ann h o x) p = view h p.
Proof. exact (add_ann_confined h objs o x). Qed.
Theorem C14_mutation_confined_categories h objs o x : separated h objs -> In o objs ->
  separated (add_cat h o x) objs /\ forall p, In p objs -> p <> o -> view (add_cat h o x) p = view h p.
Proof. exact (add_cat_confined h objs o x). Qed.

(* REFUTED for the original corpus_from_reference (repaired by a fix commit): the derived corpus shared the reference's category set *)
Theorem C14_original_corpus_aliases_reference :
  exists h ref x, let (h', o) := derive_faithful h ref in view (add_cat h' o x) ref <> view h' ref.
Proof. exact derive_faithful_aliasing_refuted. Qed.

(* ---------------------------------------------------------------------------------------------------------------------------------
   Tie to the source (re-proved on every run against genprops/ShapesGen.v, read from the CURRENT sources by harness/gen_shapes.py): the bodies
   below, as normalised text, are the ones the model follows statement by statement. *)
Fixpoint lookup_src (k : string) (l : list (string * string)) : option string :=
  match l with [] => None | (a, b) :: r => if String.eqb k a then Some b else lookup_src k r end.
(* every derived continuum is built from fresh containers: copy deep-copies the annotations and rebuilds the category set, copy_flush starts from a new Continuum, the out-of-place merge works on self.copy(), corpus_from_reference builds a new continuum with a new category set and new Segments *)
Theorem C14_src_constructors :
  lookup_src "copy" continuum_src = Some "(self) continuum = Continuum(self.uri); continuum._annotations = deepcopy(self._annotations); continuum._categories = SortedSet(self._categories); continuum.bound_inf, continuum.bound_sup = (self.bound_inf, self.bound_sup); continuum.best_window_size = self.best_window_size; return continuum"%string /\
  lookup_src "copy_flush" continuum_src = Some "(self) continuum = Continuum(self.uri); continuum.bound_inf, continuum.bound_sup = (self.bound_inf, self.bound_sup); continuum.best_window_size = self.best_window_size; return continuum"%string /\
  lookup_src "merge" continuum_src = Some "(self, continuum, in_place=False) current_cont = self if in_place else self.copy(); for annotator in continuum.annotators: [current_cont.add_annotator(annotator)]; for (annotator, unit) in continuum: [current_cont.add(annotator, unit.segment, unit.annotation)]; if not in_place: [return current_cont]"%string /\
  lookup_src "__add__" continuum_src = Some "(self, other) return self.merge(other, in_place=False)"%string /\
  lookup_src "__init__" continuum_src = Some "(self, uri=None) self.uri = uri; self._annotations: SortedDict = SortedDict(); self._categories: SortedSet = SortedSet(); self.bound_inf = 0.0; self.bound_sup = 0.0; self.best_window_size = np.inf"%string /\
  lookup_src "corpus_from_reference" corpusshufflingtool_src = Some "(self, new_annotators) continuum = Continuum(); continuum._categories = SortedSet(self._categories); continuum.bound_inf, continuum.bound_sup = self._reference_continuum.bounds; if isinstance(new_annotators, int): [new_annotators = [f'annotator_{i}' for i in range(new_annotators)]]; for unit in self._reference_continuum.iter_annotator(self._reference_annotator): [for new_annotator in new_annotators: [continuum.add(new_annotator, Segment(unit.segment.start, unit.segment.end), unit.annotation)]]; return continuum"%string /\
  lookup_src "__init__" corpusshufflingtool_src = Some "(self, magnitude, reference_continuum, categories=None) self.magnitude: float = magnitude; reference_annotators = reference_continuum.annotators; if len(reference_annotators) > 1: []; self._reference_annotator: Annotator = reference_annotators[0]; self._reference_continuum: Continuum = reference_continuum; self._categories: SortedSet = SortedSet(self._reference_continuum.categories); if categories is not None: [for category in categories: [self._categories.add(category)]]"%string.
Proof. repeat split. Qed.
