(* C09 - Disorder and gamma are invariant under renaming, translation and scaling.
   Translation, time scaling and category renaming leave every pair dissimilarity unchanged, hence give the SAME instance (sizes, pair costs,
   delta_empty) and therefore the same candidates, optimum and gamma; annotator permutation leaves every tuple's disorder unchanged because it is
   a sum over unordered annotator pairs of a symmetric function; scaling delta_empty by k multiplies every cost and the cut by k.
   Proofs in theories/Dissim/Proofs.v and theories/Align/InvarProofs.v. *)
From Coq Require Import String List Arith ZArith QArith Qabs Bool Permutation Lia.
From PGA Require Import Dissim.Model Dissim.Proofs Align.Tuples Align.Cover Align.Inst Align.Invar Align.InvarProofs Align.PermInst Align.PermInstProofs Gamma.GammaK.
From PGAprops Require Import DissimGen KernelGen.
Import ListNotations.

(* all times shifted by a constant / multiplied by a positive constant: the positional dissimilarity does not move *)
Theorem C09_translation de c u v : (dpos de (shift_u c u) (shift_u c v) == dpos de u v)%Q.
Proof. exact (dpos_shift de c u v). Qed.
Theorem C09_time_scaling de c u v : (0 < c)%Q -> (dpos de (scale_u c u) (scale_u c v) == dpos de u v)%Q.
Proof. exact (dpos_scale de c u v). Qed.
(* categories renamed by any injective map: the absolute dissimilarity does not move *)
Theorem C09_category_renaming_absolute f de u v : (forall x y, f x = f y -> x = y) -> dabs de (rename_u f u) (rename_u f v) = dabs de u v.
Proof. exact (dabs_rename f de u v). Qed.
(* ordinal: only the (label, position) association matters, not the order / naming of the list *)
Theorem C09_ordinal_relisting lp lp' de x y : NoDup (map fst lp) -> Permutation lp lp' -> (dord lp de x y == dord lp' de x y)%Q.
Proof. exact (dord_perm lp lp' de x y). Qed.

(* annotators permuted: the sum over unordered annotator pairs of a symmetric cost is unchanged *)
Theorem C09_annotator_permutation n (c : nat -> nat -> Z) (s : list nat) :
  (forall a b, c a b = c b a) -> is_perm n s ->
  pair_sum n (fun a b => c (app_perm s a) (app_perm s b)) = pair_sum n c.
Proof. exact (pair_sum_perm n c s). Qed.

(* ... at the level of whole instances: the instance whose annotator k is the original's annotator s(k) gives every (correspondingly permuted)
   tuple the same disorder, maps partitions to partitions and covers to covers with the same total cost, hence has the same minimum *)
Theorem C09_tuple_disorder_under_annotator_permutation s I t : is_perm (nann I) s -> wf_tuple (sz I) t ->
  ua_sum (perm_inst s I) (perm_tuple s t) = ua_sum I t.
Proof. exact (ua_sum_perm s I t). Qed.
Theorem C09_partitions_under_annotator_permutation s I al : is_perm (nann I) s -> partition (sz I) al ->
  partition (sz (perm_inst s I)) (map (perm_tuple s) al).
Proof. exact (partition_perm s I al). Qed.
Theorem C09_cost_under_annotator_permutation s I al : is_perm (nann I) s -> Forall (wf_tuple (sz I)) al ->
  al_sum (perm_inst s I) (map (perm_tuple s) al) = al_sum I al.
Proof. exact (al_sum_perm s I al). Qed.
Theorem C09_minimum_under_annotator_permutation s I b : is_perm (nann I) s ->
  (forall al', partition (sz (perm_inst s I)) al' -> (b <= al_sum (perm_inst s I) al')%Z) ->
  forall al, partition (sz I) al -> (b <= al_sum I al)%Z.
Proof. exact (lower_bound_transfers s I b). Qed.

(* delta_empty multiplied by k > 0 in all components: linear in every dissimilarity ... *)
Theorem C09_delta_empty_linear_pos de k u v : (dpos (k * de) u v == k * dpos de u v)%Q.
Proof. exact (dpos_linear_de de k u v). Qed.
Theorem C09_delta_empty_linear_comb alpha beta de k u v :
  (dcomb alpha beta (dpos (k * de)) (dabs (k * de)) u v == k * dcomb alpha beta (dpos de) (dabs de) u v)%Q.
Proof. exact (dcomb_pos_abs_linear_de alpha beta de k u v). Qed.
(* ... so every tuple cost and the cut scale by k, the candidate set is unchanged, the optimum (best and soft) scales by k *)
Theorem C09_tuple_cost_scales k I t : ua_sum (scale_inst k I) t = (k * ua_sum I t)%Z.
Proof. exact (ua_sum_scale k I t). Qed.
Theorem C09_candidates_unchanged k I : (0 < k)%Z -> candidates (scale_inst k I) = candidates I.
Proof. exact (candidates_scale k I). Qed.
Theorem C09_optimum_scales k I cs : (0 < k)%Z ->
  opt_partition (scale_inst k I) cs =
  match opt_partition I cs with Some (v, l) => Some ((k * v)%Z, map (scale_cand k) l) | None => None end.
Proof. exact (opt_partition_scale k I cs). Qed.
Theorem C09_soft_optimum_scales k I cs : (0 < k)%Z ->
  opt_cover (scale_inst k I) cs =
  match opt_cover I cs with Some (v, l) => Some ((k * v)%Z, map (scale_cand k) l) | None => None end.
Proof. exact (opt_cover_scale k I cs). Qed.
(* ... and gamma (observed and chance disorders all multiplied by k) does not move *)
Theorem C09_gamma_unchanged (k obs : Q) (chance : list Q) : (0 < k)%Q -> chance <> [] ->
  (gamma_of (k * obs) (map (Qmult k) chance) == gamma_of obs chance)%Q.
Proof. exact (gamma_scale k obs chance). Qed.

Example C09_example :
  (dpos 1 (shift_u 7 (mkUQ 0 4 None)) (shift_u 7 (mkUQ 1 3 None)) == 1 # 9)%Q /\ (dpos 1 (mkUQ 0 4 None) (mkUQ 1 3 None) == 1 # 9)%Q /\
  (gamma_of (2 * (1#2)) (map (Qmult 2) [1; 3]) == 3 # 4)%Q /\ (gamma_of (1#2) [1; 3] == 3 # 4)%Q.
Proof. vm_compute. repeat split; reflexivity. Qed.

(* ---------------------------------------------------------------------------------------------------------------------------------
   Tie to the source (re-proved on every run against genprops/DissimGen.v and KernelGen.v, translated from the CURRENT dissimilarity.py): *)
(* the invariances, stated on the definitions translated from the source (d() of the positional / absolute dissimilarities, the cut) *)
Theorem C09_src_translation de c u v : (pos_d de (shift_u c u) (shift_u c v) == pos_d de u v)%Q.
Proof. change (dpos de (shift_u c u) (shift_u c v) == dpos de u v)%Q. exact (dpos_shift de c u v). Qed.
Theorem C09_src_time_scaling de c u v : (0 < c)%Q -> (pos_d de (scale_u c u) (scale_u c v) == pos_d de u v)%Q.
Proof. change (0 < c -> dpos de (scale_u c u) (scale_u c v) == dpos de u v)%Q. exact (dpos_scale de c u v). Qed.
Theorem C09_src_category_renaming f de u v : (forall x y, f x = f y -> x = y) -> (abs_d de (rename_u f u) (rename_u f v) == abs_d de u v)%Q.
Proof.
  intros Hf. unfold abs_d. assert (E : cat_eqb (qc (rename_u f u)) (qc (rename_u f v)) = cat_eqb (qc u) (qc v)).
  { pose proof (dabs_rename f 1 u v Hf) as H. unfold dabs in H.
    destruct (cat_eqb (qc (rename_u f u)) (qc (rename_u f v))), (cat_eqb (qc u) (qc v)); try reflexivity; discriminate. }
  rewrite E. reflexivity.
Qed.
Theorem C09_src_delta_empty_linear de k u v : (pos_d (k * de) u v == k * pos_d de u v)%Q.
Proof. change (dpos (k * de) u v == k * dpos de u v)%Q. exact (dpos_linear_de de k u v). Qed.
(* the cut scales with delta_empty: criterium(k * de, n) = k * criterium(de, n) *)
Theorem C09_src_cut_scales k de n : criterium_src (k * de) n = (k * criterium_src de n)%Z.
Proof. unfold criterium_src. cbv zeta. ring. Qed.
