(* C05 - Gamma is 1 - observed/expected over the requested chance samples.  Proofs in theories/Gamma/{GammaRunProofs,GammaKProofs}.v.
   The C05_src_* theorems at the end are re-proved on every run against genprops/GammaGen.v, the translation of GammaResults.gamma /
   expected_disorder and of the sample-count rule of compute_gamma from the CURRENT continuum.py (harness/gen_gamma.py). *)
From Coq Require Import String List Arith ZArith QArith Qround Bool Lia.
From PGA Require Import Gamma.GammaK Gamma.GammaKProofs Gamma.GammaRun Gamma.GammaRunProofs Gamma.GammaCompose Gamma.SameMode Fast.Window Align.Tuples Align.Cover Align.Inst.
From PGAgen Require Import ConstGen.
From PGAprops Require Import GammaGen PoolGen ShapesGen.
Import ListNotations.

(* the result holds exactly max(n_samples, N_required) chance alignments; none beyond n_samples when no precision level is given *)
Theorem C05_total_is_max conf n p first :
  total_samples conf n (Some p) first = Z.max (Z.of_nat n) (n_required conf p first).
Proof. exact (total_is_max conf n p first). Qed.
Theorem C05_no_precision_no_extra_sample conf n first :
  total_samples conf n None first = Z.of_nat n /\ second_batch conf n None first = 0%Z.
Proof. split; [exact (total_no_precision conf n first) | exact (second_batch_none conf n first)]. Qed.
Theorem C05_second_batch_only_if_needed conf n p first :
  (0 < second_batch conf n (Some p) first)%Z <-> (Z.of_nat n < n_required conf p first)%Z.
Proof. exact (second_batch_only_if_needed conf n p first). Qed.
(* N_required = ceil((conf * CV / precision)^2): the least integer above conf^2 * Var / (mean^2 * precision^2) *)
Theorem C05_n_required_is_ceiling conf p ds :
  (required_real conf p ds <= inject_Z (n_required conf p ds))%Q /\
  (inject_Z (n_required conf p ds) - 1 < required_real conf p ds)%Q.
Proof. exact (n_required_spec conf p ds). Qed.

(* gamma = 1 - observed / mean(chance) never exceeds 1, and is 1 when the observed disorder is 0 *)
Theorem C05_gamma_le_1 obs chance : (0 <= obs)%Q -> (0 < qmean chance)%Q -> (gamma_of obs chance <= 1)%Q.
Proof. exact (gamma_of_le_1 obs chance). Qed.
Theorem C05_gamma_1_when_observed_0 chance : (gamma_of 0 chance == 1)%Q.
Proof. exact (gamma_identical chance). Qed.
(* identical annotations: the diagonal alignment is a partition of cost 0, so with non-negative costs the optimum is 0 (hence gamma = 1) *)
Theorem C05_identical_annotations_zero_disorder I m cs : (1 <= nann I)%nat -> (1 <= m)%nat -> identical I m ->
  Forall (wf_tuple (sz I)) cs -> incl (diag I m) cs -> (forall t, In t cs -> (0 <= ua_sum I t)%Z) ->
  exists l, opt_partition I cs = Some (0%Z, l).
Proof. exact (identical_optimum_zero I m cs). Qed.

(* THE WHOLE RUN as one function of the draw-ordered chance disorders (sampler and aligner are oracles): exactly max(n_samples, N_required) values
   enter the mean (n_samples when no precision is given); the first batch is a prefix of what is averaged - the second batch neither drops,
   recomputes nor reorders a sample; gamma is 1 - observed / mean over ALL of them *)
Theorem C05_run_count conf n p d obs :
  length (chance (run_gamma conf n (Some p) d obs)) = Z.to_nat (Z.max (Z.of_nat n) (n_required conf p (chance_of d n))).
Proof. exact (run_gamma_count conf n p d obs). Qed.
Theorem C05_run_count_without_precision conf n d obs : length (chance (run_gamma conf n None d obs)) = n.
Proof. exact (run_gamma_count_no_precision conf n d obs). Qed.
Theorem C05_run_first_batch_kept conf n prec d obs : firstn n (chance (run_gamma conf n prec d obs)) = chance_of d n.
Proof. exact (run_gamma_first_batch_kept conf n prec d obs). Qed.
Theorem C05_run_gamma_over_all_samples conf n prec d obs :
  gamma_value (run_gamma conf n prec d obs) = gamma_of obs (chance (run_gamma conf n prec d obs)).
Proof. exact (run_gamma_value conf n prec d obs). Qed.

(* the constants of the CURRENT source (regenerated on every run): the confidence factor is positive and every named precision level is a
   percentage strictly between 0 and 1, as compute_gamma asserts *)
Theorem C05_source_constants_valid :
  Qle_bool confidence 0 = false /\
  forallb (fun kv => negb (Qle_bool (snd kv) 0) && negb (Qle_bool 1 (snd kv))) precision_levels = true /\
  map fst precision_levels = ["high"; "medium"; "low"]%string.
Proof. vm_compute. repeat split. Qed.

Example C05_example :
  (* chance disorders 1, 2, 3: mean 2, variance 2/3; conf 2, precision 1/2: (2*2*(2/3))/(4*(1/4)) = 8/3 -> 3 samples required *)
  n_required 2 (1#2) [1; 2; 3]%Q = 3%Z /\ total_samples 2 2 (Some (1#2)) [1; 2]%Q = 2%Z /\ total_samples 2 1 (Some (1#10)) [1]%Q = 1%Z /\
  total_samples 2 2 (Some (1#4)) [1; 3]%Q = 16%Z.
Proof. vm_compute. repeat split. Qed.

(* ---------------------------------------------------------------------------------------------------------------------------------
   Tie to the source (obligations a change of continuum.py can break; kept here so that they cannot take other properties' builds down). *)
(* the body of GammaResults.gamma over the body of expected_disorder IS gamma_of *)
Theorem C05_src_gamma obs chance : (gamma_src (expected_disorder_src chance) obs == gamma_of obs chance)%Q.
Proof. unfold gamma_src, expected_disorder_src, gamma_of. cbv zeta. destruct (Qeq_bool obs 0); reflexivity. Qed.
(* required_samples as the source computes it - ceil((std / mean * 1.96 / precision) ** 2) - IS n_required with the source's confidence constant,
   for every std whose square is the population variance (np.std) *)
Theorem C05_src_required_samples p ds sd : (sd * sd == qvar ds)%Q -> ~ (qmean ds == 0)%Q -> ~ (p == 0)%Q ->
  (required_samples_src ds sd p == inject_Z (n_required confidence p ds))%Q.
Proof.
  intros Hsd Hm Hp. unfold required_samples_src, n_required, required_real. cbv zeta. fold confidence.
  assert (E : (sd / qmean ds * confidence / p * (sd / qmean ds * confidence / p) ==
               confidence * confidence * qvar ds / (qmean ds * qmean ds * p * p))%Q).
  { rewrite <- Hsd. field. split; assumption. }
  rewrite E. reflexivity.
Qed.
(* the test `required_samples > n_samples` and the size `required_samples - n_samples` of the second batch ARE second_batch *)
Theorem C05_src_second_batch n p first :
  (second_batch_src (inject_Z (Z.of_nat n)) (inject_Z (n_required confidence p first)) == inject_Z (second_batch confidence n (Some p) first))%Q.
Proof.
  unfold second_batch_src, second_batch, total_samples.
  set (r := n_required confidence p first). set (m := Z.of_nat n).
  destruct (Z.ltb_spec m r) as [Hlt|Hge].
  - assert (E : Qle_bool (inject_Z r) (inject_Z m) = false).
    { destruct (Qle_bool (inject_Z r) (inject_Z m)) eqn:E; [|reflexivity]. apply Qle_bool_iff in E. rewrite <- Zle_Qle in E. lia. }
    rewrite E. cbn [negb]. unfold Z.sub. rewrite inject_Z_plus, inject_Z_opp. reflexivity.
  - assert (E : Qle_bool (inject_Z r) (inject_Z m) = true) by (apply Qle_bool_iff; rewrite <- Zle_Qle; lia).
    rewrite E. cbn [negb]. replace (m - m)%Z with 0%Z by lia. reflexivity.
Qed.
Example C05_src_example :
  (gamma_src (expected_disorder_src [1; 3]) 1 == 1 # 2)%Q /\ (second_batch_src 2 16 == 14)%Q /\ (second_batch_src 30 16 == 0)%Q.
Proof. vm_compute. repeat split. Qed.

(* the mode selects the job (best by default, soft, fast - after measuring the window size; soft and fast together are refused), the jobs call the
   alignment the mode names, the sampler is initialised on the continuum with the ground-truth annotators, and the result object receives the best
   alignment and ALL chance alignments (first and second batch) *)
Theorem C05_src_modes_and_result :
  before_pool_src =
  ["from .dissimilarity import CombinedCategoricalDissimilarity"%string;
   "if dissimilarity is None: [dissimilarity = CombinedCategoricalDissimilarity()]"%string;
   "if sampler is None: [from .sampler import StatisticalContinuumSampler; sampler = StatisticalContinuumSampler()]"%string;
   "sampler.init_sampling(self, ground_truth_annotators)"%string;
   "job = _compute_best_alignment_job"%string;
   "if soft and fast: [raise NotImplementedError('Fast-gamma and Soft-gamma are not compatible with each other.')]"%string;
   "if soft: [job = _compute_soft_alignment_job]"%string;
   "if fast: [job = _compute_fast_alignment_job; self.measure_best_window_size(dissimilarity)]"%string] /\
  jobs_src =
  [("_compute_best_alignment_job"%string, "(dissimilarity, continuum) return continuum.get_best_alignment(dissimilarity)"%string);
   ("_compute_fast_alignment_job"%string, "(dissimilarity, continuum) if continuum.best_window_size == np.inf: [return continuum.get_best_alignment(dissimilarity)]; return continuum.get_fast_alignment(dissimilarity, continuum.best_window_size)"%string);
   ("_compute_gamma_k_job"%string, "(dissimilarity, alignment, category) return alignment.gamma_k_disorder(dissimilarity, category)"%string);
   ("_compute_soft_alignment_job"%string, "(dissimilarity, continuum) return continuum.get_best_soft_alignment(dissimilarity)"%string)] /\
  after_pool_src = ["return GammaResults(best_alignment=best_alignment, chance_alignments=chance_best_alignments, precision_level=precision_level, dissimilarity=dissimilarity)"%string].
Proof. repeat split. Qed.

(* both batches submit the SAME job on a fresh sample, every result is appended to the chance alignments, and the count of the second batch is
   required_samples - n_samples (the pool section as text; the same obligation as C06_src_pool_section) *)
Theorem C05_src_pool_section :
  pool_src =
  ["with ThreadPoolExecutor(max_workers=os.cpu_count()) as p"%string; "best_alignment_task = p.submit(job, *(dissimilarity, self))"%string;
   "result_pool = [p.submit(job, *(dissimilarity, sampler.sample_from_continuum)) for _ in range(n_samples)]"%string;
   "chance_best_alignments: List[Alignment] = []"%string;
   "chance_disorders: List[float] = []"%string;
   "best_alignment = best_alignment_task.result()"%string;
   "for (i, result) in enumerate(result_pool): [chance_best_alignments.append(result.result()); chance_disorders.append(chance_best_alignments[-1].disorder)]"%string;
   "if precision_level is not None: [if isinstance(precision_level, str): [precision_level = PRECISION_LEVEL[precision_level]]; assert 0 < precision_level < 1.0; variation_coeff = np.std(chance_disorders) / np.mean(chance_disorders); confidence = 1.96; required_samples = np.ceil((variation_coeff * confidence / precision_level) ** 2).astype(np.int32); if required_samples > n_samples: [result_pool = [p.submit(job, *(dissimilarity, sampler.sample_from_continuum)) for _ in range(required_samples - n_samples)]; for (i, result) in enumerate(result_pool): [chance_best_alignments.append(result.result())]]]"%string].
Proof. reflexivity. Qed.

(* ---------------------------------------------------------------------------------------------------------------------------------
   "each the same kind of alignment" in FAST mode.  The fast job takes its route from the window size carried by the continuum it is handed.
   With the sampler keeping the input itself as reference (init_sampling), the size measured before the pool (before_pool_src) and copy_flush
   copying the size into each sample, every sample carries the measured size: every chance job takes the route of the observed one.  A sampler
   that snapshots its reference at init time breaks this (sensitivity).  Proofs in theories/Gamma/SameMode.v. *)
Theorem C05_samples_carry_measured_window w n w0 r0 : prog (fast_gamma_program w n) w0 r0 = (repeat w n, w).
Proof. exact (samples_carry_measured_window w n w0 r0). Qed.
Theorem C05_chance_route_is_observed_route w n w0 r0 s :
  In s (fst (prog (fast_gamma_program w n) w0 r0)) -> fast_job_route s = fast_job_route (snd (prog (fast_gamma_program w n) w0 r0)).
Proof. exact (chance_route_is_observed_route w n w0 r0 s). Qed.
Theorem C05_snapshot_before_measure_would_differ :
  exists w n s, In s (fst (prog (InitSnapshot :: Measure w :: repeat Sample n) None Alias)) /\
                fast_job_route s <> fast_job_route (snd (prog (InitSnapshot :: Measure w :: repeat Sample n) None Alias)).
Proof. exact snapshot_before_measure_differs. Qed.

Fixpoint lookup_src (k : string) (l : list (string * string)) : option string :=
  match l with [] => None | (a, b) :: r => if String.eqb k a then Some b else lookup_src k r end.
(* the three facts the program above assumes, as the CURRENT source states them: the sampler keeps the continuum it is given (no copy);
   init_sampling comes before the measurement, both before the pool; copy_flush hands the size on *)
Theorem C05_src_samples_inherit_the_window :
  lookup_src "init_sampling" abstractcontinuumsampler_src = Some "(self, reference_continuum, ground_truth_annotators=None) assert reference_continuum, 'Cannot initialize sampling with an empty reference continuum.'; self._reference_continuum = reference_continuum; if ground_truth_annotators is None: [self._ground_truth_annotators = self._reference_continuum.annotators] else: [assert self._reference_continuum.annotators.issuperset(ground_truth_annotators), ""Can't sample from ground truth annotators not in the reference continuum.""; self._ground_truth_annotators = SortedSet(ground_truth_annotators)]"%string /\
  lookup_src "copy_flush" continuum_src = Some "(self) continuum = Continuum(self.uri); continuum.bound_inf, continuum.bound_sup = (self.bound_inf, self.bound_sup); continuum.best_window_size = self.best_window_size; return continuum"%string /\
  nth 3 before_pool_src ""%string = "sampler.init_sampling(self, ground_truth_annotators)"%string /\
  nth 7 before_pool_src ""%string = "if fast: [job = _compute_fast_alignment_job; self.measure_best_window_size(dissimilarity)]"%string.
Proof. repeat split. Qed.
