(* C08 - Alignment results do not depend on the MIP back-end. *)
From Coq Require Import List Arith ZArith Bool.
From PGA Require Import Align.Tuples Align.Cover Align.Inst Align.PartProofs Align.OptProofs Align.Backend.
Import ListNotations.

(* the two formulations of the best-alignment program have the same feasible vectors (hence the same minima) *)
Theorem C08_formulations_equivalent I cs x : Aeq1 I cs x <-> (Ale1 I cs x /\ Age1 I cs x).
Proof. exact (formulations_equiv I cs x). Qed.
(* so under either back-end a returned vector decodes to a partition (best) ... *)
Theorem C08_glpk_vector_is_partition I cs x : length x = length cs -> Forall (wf_tuple (sz I)) cs ->
  Ale1 I cs x /\ Age1 I cs x -> partition (sz I) (sel cs x).
Proof. intros Hl Hw H. apply (Aeq1_iff_partition I cs x Hl Hw). apply formulations_equiv. exact H. Qed.
(* ... or a cover (soft: the same constraint in both branches) *)
Theorem C08_soft_vector_is_cover I cs x : length x = length cs -> Forall (wf_tuple (sz I)) cs ->
  Age1 I cs x -> cover (sz I) (sel cs x).
Proof. intros Hl Hw H. apply (Age1_iff_cover I cs x Hl Hw). exact H. Qed.

(* the selection logic always ends in exactly one delivering solve: CBC iff cylp is importable and raises no solver error,
   GLPK otherwise; the only abandoned call is the failed CBC one *)
Theorem C08_fallback_total soft e :
  let (calls, final) := solve_calls soft e in
  last calls final = final /\ In final calls /\
  (fst final = CBC <-> cylp_importable e = true /\ cbc_raises_solver_error e = false) /\
  (forall c, In c calls -> c <> final -> c = (CBC, if soft then GeOne else EqOne) /\ cbc_raises_solver_error e = true).
Proof. exact (fallback_total soft e). Qed.
