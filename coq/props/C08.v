(* C08 - Alignment results do not depend on the MIP back-end. *)
From Coq Require Import String List Arith ZArith Bool.
From PGA Require Import Align.Tuples Align.Cover Align.Inst Align.PartProofs Align.OptProofs Align.Backend.
From PGAprops Require Import IlpGen.
Import ListNotations.

(* the two formulations of the best-alignment program have the same feasible vectors (hence the same minima) *)
Theorem C08_formulations_equivalent I cs x : Aeq1 I cs x <-> (Ale1 I cs x /\ Age1 I cs x).
Proof. exact (formulations_equiv I cs x). Qed.
(* so under either back-end a returned vector decodes to a partition (best) ... *)
Theorem C08_glpk_vector_is_partition I cs x : length x = length cs -> Forall (wf_tuple (sz I)) cs ->
  Ale1 I cs x /\ Age1 I cs x -> partition (sz I) (sel cs x).
Proof. intros Hl Hw H. apply (Aeq1_iff_partition I cs x Hl Hw). apply formulations_equiv. exact H. Qed.
(* ... or a cover (soft: the same constraint in both branches) *)
Theorem C08_soft_vector_is_cover I cs x : length x = length cs -> Forall (wf_tuple (sz I)) cs ->
  Age1 I cs x -> cover (sz I) (sel cs x).
Proof. intros Hl Hw H. apply (Age1_iff_cover I cs x Hl Hw). exact H. Qed.

(* the selection logic always ends in exactly one delivering solve: CBC iff cylp is importable and raises no solver error,
   GLPK otherwise; the only abandoned call is the failed CBC one *)
Theorem C08_fallback_total soft e :
  let (calls, final) := solve_calls soft e in
  last calls final = final /\ In final calls /\
  (fst final = CBC <-> cylp_importable e = true /\ cbc_raises_solver_error e = false) /\
  (forall c, In c calls -> c <> final -> c = (CBC, if soft then GeOne else EqOne) /\ cbc_raises_solver_error e = true).
Proof. exact (fallback_total soft e). Qed.

(* ---------------------------------------------------------------------------------------------------------------------------------
   Tie to the source (re-proved on every run against genprops/IlpGen.v): which exceptions select the fallback and which solver each branch names,
   for the best and for the soft alignment. *)
Theorem C08_src_backends :
  map (fun k => (k, (snd (nth k (map (fun kv => (0%nat, snd kv)) best_ilp_src) (0%nat, ""%string))))) [4; 5; 6]%nat =
  [(4%nat, "import cylp; cp.Problem(cp.Minimize(disorders.T @ x), [A @ x == 1]).solve(solver=cp.CBC)"%string);
   (5%nat, "(ImportError, cp.SolverError)"%string);
   (6%nat, "matmul = A @ x; cp.Problem(cp.Minimize(disorders.T @ x), [1 <= matmul, matmul <= 1]).solve(solver=cp.GLPK_MI)"%string)] /\
  map (fun k => (k, (snd (nth k (map (fun kv => (0%nat, snd kv)) soft_ilp_src) (0%nat, ""%string))))) [4; 5; 6]%nat =
  [(4%nat, "import cylp; cp.Problem(cp.Minimize(disorders.T @ x), [A @ x >= 1]).solve(solver=cp.CBC)"%string);
   (5%nat, "(ImportError, cp.SolverError)"%string);
   (6%nat, "cp.Problem(cp.Minimize(disorders.T @ x), [A @ x >= 1]).solve(solver=cp.GLPK_MI)"%string)].
Proof. split; reflexivity. Qed.
