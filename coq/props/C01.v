(* C01 - The best alignment is a partition of the continuum's units.
   Property theorems only; proofs are in theories/Align/{PartProofs,OptProofs,CandProofs}.v. *)
From Coq Require Import String List Arith ZArith.
From PGA Require Import Align.Tuples Align.Cover Align.Inst Align.PartProofs Align.CandProofs Align.OptProofs.
From PGAprops Require Import IlpGen.
Import ListNotations.

(* every candidate offered to the solver is well-formed: one slot per annotator, in range, at least one real unit *)
Theorem C01_candidates_wellformed I : (0 <= de I)%Z -> Forall (wf_tuple (sz I)) (candidates I).
Proof. exact (candidates_wf I). Qed.

(* FULL STATEMENT (logic part): whatever 0/1 vector x the solver returns under the library's constraint
   A x = 1, the decoded selection is a partition: each unit of each annotator occurs in exactly one
   unitary alignment, every unitary alignment is well-formed and made of the continuum's own units *)
Theorem C01_constraint_iff_partition I cs x : length x = length cs -> Forall (wf_tuple (sz I)) cs ->
  (Aeq1 I cs x <-> partition (sz I) (sel cs x)).
Proof. exact (Aeq1_iff_partition I cs x). Qed.
Theorem C01_selection_from_candidates cs x : incl (sel cs x) cs.
Proof. exact (sel_incl cs x). Qed.

(* the GLPK formulation (1 <= A x, A x <= 1) denotes the same set of vectors *)
Theorem C01_glpk_formulation I cs x : Aeq1 I cs x <-> (Ale1 I cs x /\ Age1 I cs x).
Proof. exact (formulations_equiv I cs x). Qed.

(* the program is always feasible (so a terminating solver returns): the singletons are candidates and form a partition,
   also with empty annotators, coinciding units, no labels *)
Theorem C01_feasible I : (0 <= de I)%Z -> exists al, incl al (candidates I) /\ partition (sz I) al.
Proof. exact (feasible I). Qed.

(* the matrix: A[r,k] = 1 iff row r is a real unit of candidate k; rows <-> (annotator, unit) is a bijection *)
Theorem C01_rows_spec I t r : wf_tuple (sz I) t ->
  (In r (rows_of I t) <-> exists a, a < nann I /\ nth a t 0 < size I a /\ r = offset (sz I) a + nth a t 0).
Proof. exact (rows_of_spec I t r). Qed.
Theorem C01_flatten_injective s a i b j : a < length s -> b < length s -> i < nth a s 0 -> j < nth b s 0 ->
  offset s a + i = offset s b + j -> a = b /\ i = j.
Proof. exact (flatten_inj s a i b j). Qed.
Theorem C01_flatten_surjective s r : r < fold_right Nat.add 0 s ->
  exists a i, a < length s /\ i < nth a s 0 /\ r = offset s a + i.
Proof. exact (flatten_surj s r). Qed.

(* the verified judge applied to every alignment the library returns *)
Theorem C01_judge_reflects s al : is_partitionb s al = true <-> partition s al.
Proof. exact (is_partitionb_spec s al). Qed.

(* non-vacuity: 3 annotators, one of them empty; two coinciding units *)
Example C01_example :
  is_partitionb [2; 0; 1] [[0; 0; 0]; [1; 0; 1]] = true /\ is_partitionb [2; 0; 1] [[0; 0; 0]; [0; 0; 1]] = false /\
  is_partitionb [2; 0; 1] [[0; 0; 0]; [1; 0; 1]; [2; 0; 1]] = false.
Proof. vm_compute. repeat split. Qed.

(* ---------------------------------------------------------------------------------------------------------------------------------
   Tie to the source (re-proved on every run against genprops/IlpGen.v, read from the CURRENT continuum.py / numba_utils.py by harness/gen_ilp.py):
   the program get_best_alignment hands to the solver is the one the theorems above are about - 0/1 variables, objective disorders . x,
   A x = 1 (primary) or 1 <= A x <= 1 (fallback, C01_glpk_formulation), A built by build_A (C01_rows_spec), integer solvers in both branches,
   x > 0.9 read as "selected" (C01_selection_from_candidates), index == size decoded as the empty unit. *)
Theorem C01_src_program :
  best_ilp_src =
  [("guard"%string, "len(self.annotators) >= 2 and self"%string);
   ("candidates"%string, "dissimilarity.valid_alignments(self)"%string);
   ("matrix"%string, "build_A(possible_unitary_alignments, sizes)"%string);
   ("variable"%string, "cp.Variable(shape=(n,), boolean=True)"%string);
   ("primary"%string, "import cylp; cp.Problem(cp.Minimize(disorders.T @ x), [A @ x == 1]).solve(solver=cp.CBC)"%string);
   ("fallback_when"%string, "(ImportError, cp.SolverError)"%string);
   ("fallback"%string, "matmul = A @ x; cp.Problem(cp.Minimize(disorders.T @ x), [1 <= matmul, matmul <= 1]).solve(solver=cp.GLPK_MI)"%string);
   ("decode"%string, "np.where(x.value > 0.9)"%string);
   ("chosen"%string, "possible_unitary_alignments[chosen_alignments_ids] | disorders[chosen_alignments_ids]"%string);
   ("units"%string, "u_align_tuple = []; for annotator_id, unit_id in enumerate(alignment): annotator, units = self._annotations.peekitem(annotator_id) try: unit = units[unit_id] u_align_tuple.append((annotator, unit)) except IndexError: u_align_tuple.append((annotator, None)); unitary_alignment = UnitaryAlignment(list(u_align_tuple)); unitary_alignment.disorder = alignments_disorders[alignment_id]; set_unitary_alignements.append(unitary_alignment)"%string);
   ("result"%string, "return Alignment(set_unitary_alignements, continuum=self, check_validity=False, disorder=np.sum(alignments_disorders) / self.avg_num_annotations_per_annotator)"%string);
   ("order"%string, "Assert; sizes; For; (disorders, possible_unitary_alignments); n; A; x; Try; Assert; (chosen_alignments_ids,); chosen_alignments; alignments_disorders; ImportFrom; set_unitary_alignements; For; Return"%string)].
Proof. reflexivity. Qed.
Theorem C01_src_build_A :
  build_A_src = "nb_units = np.sum(sizes); n = len(possible_unitary_alignments); A = np.zeros((nb_units, n), dtype=np.float32); for p_id, unit_ids_tuple in enumerate(possible_unitary_alignments): annotator_units_start = 0 for annotator_id, unit_id in enumerate(unit_ids_tuple): if unit_id != sizes[annotator_id]: A[annotator_units_start + unit_id, p_id] = 1 annotator_units_start += sizes[annotator_id]; return A"%string.
Proof. reflexivity. Qed.
