(* C01 - The best alignment is a partition of the continuum's units.
   Property theorems only; proofs are in theories/Align/{PartProofs,OptProofs,CandProofs}.v. *)
From Coq Require Import List Arith ZArith.
From PGA Require Import Align.Tuples Align.Cover Align.Inst Align.PartProofs Align.CandProofs Align.OptProofs.
Import ListNotations.

(* every candidate offered to the solver is well-formed: one slot per annotator, in range, at least one real unit *)
Theorem C01_candidates_wellformed I : (0 <= de I)%Z -> Forall (wf_tuple (sz I)) (candidates I).
Proof. exact (candidates_wf I). Qed.

(* FULL STATEMENT (logic part): whatever 0/1 vector x the solver returns under the library's constraint
   A x = 1, the decoded selection is a partition: each unit of each annotator occurs in exactly one
   unitary alignment, every unitary alignment is well-formed and made of the continuum's own units *)
Theorem C01_constraint_iff_partition I cs x : length x = length cs -> Forall (wf_tuple (sz I)) cs ->
  (Aeq1 I cs x <-> partition (sz I) (sel cs x)).
Proof. exact (Aeq1_iff_partition I cs x). Qed.
Theorem C01_selection_from_candidates cs x : incl (sel cs x) cs.
Proof. exact (sel_incl cs x). Qed.

(* the GLPK formulation (1 <= A x, A x <= 1) denotes the same set of vectors *)
Theorem C01_glpk_formulation I cs x : Aeq1 I cs x <-> (Ale1 I cs x /\ Age1 I cs x).
Proof. exact (formulations_equiv I cs x). Qed.

(* the program is always feasible (so a terminating solver returns): the singletons are candidates and form a partition,
   also with empty annotators, coinciding units, no labels *)
Theorem C01_feasible I : (0 <= de I)%Z -> exists al, incl al (candidates I) /\ partition (sz I) al.
Proof. exact (feasible I). Qed.

(* the matrix: A[r,k] = 1 iff row r is a real unit of candidate k; rows <-> (annotator, unit) is a bijection *)
Theorem C01_rows_spec I t r : wf_tuple (sz I) t ->
  (In r (rows_of I t) <-> exists a, a < nann I /\ nth a t 0 < size I a /\ r = offset (sz I) a + nth a t 0).
Proof. exact (rows_of_spec I t r). Qed.
Theorem C01_flatten_injective s a i b j : a < length s -> b < length s -> i < nth a s 0 -> j < nth b s 0 ->
  offset s a + i = offset s b + j -> a = b /\ i = j.
Proof. exact (flatten_inj s a i b j). Qed.
Theorem C01_flatten_surjective s r : r < fold_right Nat.add 0 s ->
  exists a i, a < length s /\ i < nth a s 0 /\ r = offset s a + i.
Proof. exact (flatten_surj s r). Qed.

(* the verified judge applied to every alignment the library returns *)
Theorem C01_judge_reflects s al : is_partitionb s al = true <-> partition s al.
Proof. exact (is_partitionb_spec s al). Qed.

(* non-vacuity: 3 annotators, one of them empty; two coinciding units *)
Example C01_example :
  is_partitionb [2; 0; 1] [[0; 0; 0]; [1; 0; 1]] = true /\ is_partitionb [2; 0; 1] [[0; 0; 0]; [0; 0; 1]] = false /\
  is_partitionb [2; 0; 1] [[0; 0; 0]; [1; 0; 1]; [2; 0; 1]] = false.
Proof. vm_compute. repeat split. Qed.
