(* C15 - The statistical sampler emits valid continua with the reference's statistics.  Proofs in theories/Sampler/StatProofs.v.
   (partial: that np.random.normal / choice follow their laws is NumPy's; the theorems show that the output is the stated function of the declared
   primitives and is valid for EVERY stream of draws.) *)
From Coq Require Import List Arith ZArith QArith Qabs Bool.
From PGA Require Import Sampler.Stat Sampler.StatProofs.
Import ListNotations.
Local Open Scope Q_scope.

(* every sample has exactly the ground-truth annotators; every unit is at least the segment precision long and carries a category of the list *)
Theorem C15_sample_valid prec ncat nann st anns st' :
  stat_sample prec ncat nann st = Some (anns, st') ->
  length anns = nann /\ Forall (Forall (unit_ok prec ncat)) anns.
Proof. exact (stat_sample_valid prec ncat nann st anns st'). Qed.
(* ... and is never empty *)
Theorem C15_sample_nonempty prec ncat nann st anns st' :
  (1 <= nann)%nat -> stat_sample prec ncat nann st = Some (anns, st') -> concat anns <> [].
Proof. exact (stat_sample_nonempty prec ncat nann st anns st'). Qed.
Theorem C15_units_positive prec ncat u : 0 < prec -> unit_ok prec ncat u -> su_s u < su_e u.
Proof. exact (unit_ok_positive prec ncat u). Qed.
(* the generative chain: each unit starts at the previous end plus the drawn gap, ends after the drawn (absolute) duration *)
Theorem C15_units_chain prec ncat k last st us st' :
  draw_units prec ncat k last st = Some (us, st') -> length us = k /\ Forall (unit_ok prec ncat) us.
Proof. exact (draw_units_valid prec ncat k last st us st'). Qed.
Theorem C15_duration_redrawn_until_long_enough prec start st e st' : draw_end prec start st = Some (e, st') -> prec <= e - start.
Proof. exact (draw_end_spec prec start st e st'). Qed.

(* measured parameters: category frequencies sum to 1; variances are non-negative; the gap list starts with the conventional 0 and holds every
   gap between consecutive units of an annotator *)
Theorem C15_category_weights_sum_to_1 ref ncat :
  concat ref <> [] -> (forall u, In u (concat ref) -> (ru_cat u < ncat)%nat) ->
  qsum (map (cat_weight ref) (seq 0 ncat)) == 1.
Proof. exact (cat_weights_sum_to_1 ref ncat). Qed.
Theorem C15_variance_nonneg l : 0 <= qvar l.
Proof. exact (qvar_nonneg l). Qed.
Theorem C15_gaps ref : exists rest, all_gaps ref = 0 :: rest /\
  forall us u v pre post, In us ref -> us = pre ++ u :: v :: post -> In (ru_s v - ru_e u) rest.
Proof. exact (all_gaps_spec ref). Qed.

Example C15_example :
  (* two annotators; first draws 0 units -> at least 1; one too-short duration redrawn; second annotator 0 units *)
  stat_sample (1#1000) 2 2 [SNormal (1#4); SNormal 1; SNormal 0; SNormal (-2); SChoice 1; SNormal (1#3)]
  = Some ([[mkSU (0 + 1) (0 + 1 + Qabs (-2)) 1]; []], []).
Proof. vm_compute. reflexivity. Qed.
