(* C15 - The statistical sampler emits valid continua with the reference's statistics.  Proofs in theories/Sampler/StatProofs.v.
   (partial: that np.random.normal / choice follow their laws is NumPy's; the theorems show that the output is the stated function of the declared
   primitives and is valid for EVERY stream of draws.)
   The C15_src_* theorems at the end are re-proved on every run against genprops/StatGen.v, the translation of the sampler's arithmetic and the
   statements around it from the CURRENT sampler.py (harness/gen_stat.py). *)
From Coq Require Import String List Arith ZArith QArith Qabs Qround Bool Lia.
From PGA Require Import Sampler.Stat Sampler.StatProofs.
From PGAprops Require Import StatGen.
Import ListNotations.
Local Open Scope Q_scope.

(* every sample has exactly the ground-truth annotators; every unit is at least the segment precision long and carries a category of the list *)
Theorem C15_sample_valid prec ncat nann st anns st' :
  stat_sample prec ncat nann st = Some (anns, st') ->
  length anns = nann /\ Forall (Forall (unit_ok prec ncat)) anns.
Proof. exact (stat_sample_valid prec ncat nann st anns st'). Qed.
(* ... and is never empty *)
Theorem C15_sample_nonempty prec ncat nann st anns st' :
  (1 <= nann)%nat -> stat_sample prec ncat nann st = Some (anns, st') -> concat anns <> [].
Proof. exact (stat_sample_nonempty prec ncat nann st anns st'). Qed.
Theorem C15_units_positive prec ncat u : 0 < prec -> unit_ok prec ncat u -> su_s u < su_e u.
Proof. exact (unit_ok_positive prec ncat u). Qed.
(* the generative chain: each unit starts at the previous end plus the drawn gap, ends after the drawn (absolute) duration *)
Theorem C15_units_chain prec ncat k last st us st' :
  draw_units prec ncat k last st = Some (us, st') -> length us = k /\ Forall (unit_ok prec ncat) us.
Proof. exact (draw_units_valid prec ncat k last st us st'). Qed.
Theorem C15_duration_redrawn_until_long_enough prec start st e st' : draw_end prec start st = Some (e, st') -> prec <= e - start.
Proof. exact (draw_end_spec prec start st e st'). Qed.

(* measured parameters: category frequencies sum to 1; variances are non-negative; the gap list starts with the conventional 0 and holds every
   gap between consecutive units of an annotator *)
Theorem C15_category_weights_sum_to_1 ref ncat :
  concat ref <> [] -> (forall u, In u (concat ref) -> (ru_cat u < ncat)%nat) ->
  qsum (map (cat_weight ref) (seq 0 ncat)) == 1.
Proof. exact (cat_weights_sum_to_1 ref ncat). Qed.
Theorem C15_variance_nonneg l : 0 <= qvar l.
Proof. exact (qvar_nonneg l). Qed.
Theorem C15_gaps ref : exists rest, all_gaps ref = 0 :: rest /\
  forall us u v pre post, In us ref -> us = pre ++ u :: v :: post -> In (ru_s v - ru_e u) rest.
Proof. exact (all_gaps_spec ref). Qed.

Example C15_example :
  (* two annotators; first draws 0 units -> at least 1; one too-short duration redrawn; second annotator 0 units *)
  stat_sample (1#1000) 2 2 [SNormal (1#4); SNormal 1; SNormal 0; SNormal (-2); SChoice 1; SNormal (1#3)]
  = Some ([[mkSU (0 + 1) (0 + 1 + Qabs (-2)) 1]; []], []).
Proof. vm_compute. reflexivity. Qed.

(* ---------------------------------------------------------------------------------------------------------------------------------
   Tie to the source: the end of a unit and its redraw test, the number of units, the start of a unit and the gap expressions ARE the model's;
   the statements around them (one normal draw for the count, at least one unit while the sample is empty, gap - start - end - redraw - category -
   add - last_point per unit; the gap list starting with 0; means and standard deviations by NumPy; weights = counts / number of units) have the
   shape the model was written for. *)
Theorem C15_src_draw_end prec start d st :
  draw_end prec start (SNormal d :: st) =
  (if end_retry_src (end_src start d) start prec then draw_end prec start st else Some (end_src start d, st)).
Proof. reflexivity. Qed.
Theorem C15_src_nb_units x : nb_units_src x == inject_Z (Z.of_nat (abs_int x)).
Proof.
  unfold nb_units_src, abs_int, qtrunc_src. set (z := if Qle_bool 0 x then Qfloor x else Qceiling x).
  rewrite Z2Nat.id by apply Z.abs_nonneg. unfold Qabs, inject_Z. cbn. reflexivity.
Qed.
Theorem C15_src_unit_start last gap : start_src last gap = last + gap.
Proof. reflexivity. Qed.
Theorem C15_src_gaps u v : inner_gaps [u; v] = [inner_gap_src (ru_s v) (ru_e u)] /\
  leading_gap [u] = (if leading_gap_counts_src (ru_s u) then [leading_gap_src (ru_s u)] else []).
Proof. split; reflexivity. Qed.
Theorem C15_src_shape :
  sample_shape_src =
  [("annotators"%string, "for annotator in self._ground_truth_annotators"%string);
   ("per_annotator"%string, "new_continnum.add_annotator(annotator); last_point = 0; nb_units = abs(int(np.random.normal(self._avg_nb_units_per_annotator, self._std_nb_units_per_annotator))); if not new_continnum: nb_units = max(1, nb_units); for _ in range(nb_units)"%string);
   ("per_unit"%string, "gap = np.random.normal(self._avg_gap, self._std_gap); start = last_point + gap; end = start + abs(np.random.normal(self._avg_unit_duration, self._std_unit_duration)); while ...; category = np.random.choice(self._categories, p=self._categories_weight); new_continnum.add(annotator, Segment(start, end), category); last_point = end"%string);
   ("new"%string, "self._reference_continuum.copy_flush()"%string);
   ("return"%string, "return new_continnum"%string)] /\
  gap_shape_src =
  [("init"%string, "[0]"%string);
   ("inner_loop"%string, "for annotator, unit in self._reference_continuum: if annotator != current_annotator: current_annotator = annotator else: gaps.append(unit.segment.start - last_unit.segment.end) last_unit = unit"%string);
   ("leading_loop"%string, "for annotation_set in self._reference_continuum._annotations.values(): if len(annotation_set) == 0: continue if annotation_set[0].segment.start > 0: gaps.append(annotation_set[0].segment.start)"%string);
   ("avg"%string, "float(np.mean(gaps))"%string);
   ("std"%string, "float(np.std(gaps))"%string)] /\
  statistics_src =
  [("_set_nb_units_information"%string, "nb_units = [len(annotations) for annotator, annotations in self._reference_continuum._annotations.items()]; self._avg_nb_units_per_annotator = float(np.mean(nb_units)); self._std_nb_units_per_annotator = float(np.std(nb_units))"%string);
   ("_set_duration_information"%string, "durations = [unit.segment.duration for _, unit in self._reference_continuum]; self._avg_unit_duration = float(np.mean(durations)); self._std_unit_duration = float(np.std(durations))"%string);
   ("_set_categories_information"%string, "categories_set = self._reference_continuum.categories; self._categories = np.array(categories_set); self._categories_weight = np.zeros(len(categories_set)); for _, unit in self._reference_continuum: self._categories_weight[categories_set.index(unit.annotation)] += 1; self._categories_weight /= self._reference_continuum.num_units"%string);
   ("init_sampling"%string, "super().init_sampling(reference_continuum, ground_truth_annotators); self._set_gap_information(); self._set_duration_information(); self._set_categories_information(); self._set_nb_units_information()"%string)].
Proof. repeat split. Qed.
