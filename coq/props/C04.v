(* C04 - Built-in dissimilarities compute their documented formula in both forms.
   The formulas themselves are the definitions of theories/Dissim/Model.v (compared with d() and with the compiled kernels on every
   run); the theorems below are the algebraic laws the property states.  Proofs in theories/Dissim/Proofs.v. *)
From Coq Require Import List Arith ZArith QArith Qabs Bool Permutation.
From PGA Require Import Dissim.Model Dissim.Proofs.
Import ListNotations.
Local Open Scope Q_scope.

(* positional-sporadic: symmetric, non-negative, zero on identical units *)
Theorem C04_pos_symmetric de u v : dpos de u v == dpos de v u.
Proof. exact (dpos_sym de u v). Qed.
Theorem C04_pos_nonneg de u v : 0 <= de -> 0 <= dpos de u v.
Proof. exact (dpos_nonneg de u v). Qed.
Theorem C04_pos_zero de u : dpos de u u == 0.
Proof. exact (dpos_zero_on_eq de u). Qed.

(* absolute categorical: same laws; the array form (category -> index in the category list, unlabelled -> an unused index) equals the unit form *)
Theorem C04_abs_symmetric de u v : dabs de u v == dabs de v u.
Proof. exact (dabs_sym de u v). Qed.
Theorem C04_abs_nonneg de u v : 0 <= de -> 0 <= dabs de u v.
Proof. exact (dabs_nonneg de u v). Qed.
Theorem C04_abs_zero de u : dabs de u u == 0.
Proof. exact (dabs_zero_on_eq de u). Qed.
Theorem C04_abs_array_form_eq_unit_form cats de u v :
  (forall x, qc u = Some x -> In x cats) -> (forall x, qc v = Some x -> In x cats) ->
  dabs_arr cats de u v = dabs de u v.
Proof. exact (dabs_arr_eq cats de u v). Qed.

(* Levenshtein: symmetric, zero on equal labels, below 1 - so the global normaliser is 1 and the value for two labels depends on them alone,
   not on which or how many other labels were supplied *)
Theorem C04_lev_symmetric a b : lev a b = lev b a.
Proof. exact (lev_sym a b). Qed.
Theorem C04_lev_zero a : lev a a = 0%nat.
Proof. exact (lev_refl a). Qed.
Theorem C04_lev_bounded a b : (lev a b <= Nat.max (length a) (length b))%nat.
Proof. exact (lev_le_max a b). Qed.
Theorem C04_lev_depends_on_names_only labels labels' de a b : dlev labels de a b == dlev labels' de a b.
Proof. exact (dlev_independent_of_labels labels labels' de a b). Qed.
Theorem C04_lev_nonneg labels de a b : 0 <= de -> 0 <= dlev labels de a b.
Proof. exact (dlev_nonneg labels de a b). Qed.

(* ordinal / numerical: |p_x - p_y| / max(1, largest difference) * delta_empty: symmetric, zero, non-negative, at most delta_empty,
   and independent of the order in which the (label, position) pairs were supplied *)
Theorem C04_ord_symmetric lp de x y : dord lp de x y == dord lp de y x.
Proof. exact (dord_sym lp de x y). Qed.
Theorem C04_ord_zero lp de x : dord lp de x x == 0.
Proof. exact (dord_zero_on_eq lp de x). Qed.
Theorem C04_ord_nonneg lp de x y : 0 <= de -> 0 <= dord lp de x y.
Proof. exact (dord_nonneg lp de x y). Qed.
Theorem C04_ord_le_delta_empty lp de x y : 0 <= de -> In x (map fst lp) -> In y (map fst lp) -> dord lp de x y <= de.
Proof. exact (dord_le_de lp de x y). Qed.
Theorem C04_ord_order_of_labels_irrelevant lp lp' de x y : NoDup (map fst lp) -> Permutation lp lp' -> dord lp de x y == dord lp' de x y.
Proof. exact (dord_perm lp lp' de x y). Qed.

(* precomputed table: symmetric / zero when the table is *)
Theorem C04_table_symmetric cats m de u v : (forall i j, mget m i j == mget m j i) -> dtable cats m de u v == dtable cats m de v u.
Proof. exact (dtable_sym cats m de u v). Qed.
Theorem C04_table_zero cats m de u : (forall i, mget m i i == 0) -> dtable cats m de u u == 0.
Proof. exact (dtable_zero_on_eq cats m de u). Qed.

(* combined = alpha * positional + beta * categorical inherits the laws *)
Theorem C04_comb_symmetric alpha beta dp dc u v : dp u v == dp v u -> dc u v == dc v u ->
  dcomb alpha beta dp dc u v == dcomb alpha beta dp dc v u.
Proof. exact (dcomb_sym alpha beta dp dc u v). Qed.
Theorem C04_comb_nonneg alpha beta dp dc u v : 0 <= alpha -> 0 <= beta -> 0 <= dp u v -> 0 <= dc u v -> 0 <= dcomb alpha beta dp dc u v.
Proof. exact (dcomb_nonneg alpha beta dp dc u v). Qed.
Theorem C04_comb_zero alpha beta dp dc u : dp u u == 0 -> dc u u == 0 -> dcomb alpha beta dp dc u u == 0.
Proof. exact (dcomb_zero_on_eq alpha beta dp dc u). Qed.

(* non-vacuity: the documented values on concrete units *)
Example C04_example :
  dpos (1#2) (mkUQ 0 4 None) (mkUQ 1 3 None) == 1 # 18 /\
  dord [(0%Z, 0); (1%Z, 1); (2%Z, 2)] 1 0%Z 2%Z == 1 /\ dord [(2%Z, 2); (0%Z, 0); (1%Z, 1)] 1 0%Z 2%Z == 1 /\
  dlev [[99;97;116]; [99;97;114;116]]%nat 1 [99;97;116]%nat [99;97;114;116]%nat == 1 # 5.
Proof. vm_compute. repeat split; reflexivity. Qed.
