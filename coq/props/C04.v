(* C04 - Built-in dissimilarities compute their documented formula in both forms.
   The formulas are the definitions of theories/Dissim/Model.v.  They are tied to the source twice: (i) the bodies of d() and of the compiled
   kernels of the positional, absolute, table and combined dissimilarities, and the row _build_arrays_continuum writes for a unit, are
   TRANSLATED from dissimilarity.py on every run (harness/gen_tables.py -> genprops/DissimGen.v) and the C04_src_* theorems at the end of this
   file are re-proved against that translation; (ii) d(), the kernels and the precomputed matrices are compared with the model on every run.
   The theorems in between are the algebraic laws the property states.  Proofs in theories/Dissim/Proofs.v. *)
From Coq Require Import List Arith ZArith QArith Qabs Qround Bool Permutation Lia.
From PGA Require Import Dissim.Model Dissim.Proofs.
From PGAprops Require Import DissimGen.
Import ListNotations.
Local Open Scope Q_scope.

(* positional-sporadic: symmetric, non-negative, zero on identical units *)
Theorem C04_pos_symmetric de u v : dpos de u v == dpos de v u.
Proof. exact (dpos_sym de u v). Qed.
Theorem C04_pos_nonneg de u v : 0 <= de -> 0 <= dpos de u v.
Proof. exact (dpos_nonneg de u v). Qed.
Theorem C04_pos_zero de u : dpos de u u == 0.
Proof. exact (dpos_zero_on_eq de u). Qed.

(* absolute categorical: same laws; the array form (category -> index in the category list, unlabelled -> an unused index) equals the unit form *)
Theorem C04_abs_symmetric de u v : dabs de u v == dabs de v u.
Proof. exact (dabs_sym de u v). Qed.
Theorem C04_abs_nonneg de u v : 0 <= de -> 0 <= dabs de u v.
Proof. exact (dabs_nonneg de u v). Qed.
Theorem C04_abs_zero de u : dabs de u u == 0.
Proof. exact (dabs_zero_on_eq de u). Qed.
Theorem C04_abs_array_form_eq_unit_form cats de u v :
  (forall x, qc u = Some x -> In x cats) -> (forall x, qc v = Some x -> In x cats) ->
  dabs_arr cats de u v = dabs de u v.
Proof. exact (dabs_arr_eq cats de u v). Qed.

(* Levenshtein: symmetric, zero on equal labels, below 1 - so the global normaliser is 1 and the value for two labels depends on them alone,
   not on which or how many other labels were supplied *)
Theorem C04_lev_symmetric a b : lev a b = lev b a.
Proof. exact (lev_sym a b). Qed.
Theorem C04_lev_zero a : lev a a = 0%nat.
Proof. exact (lev_refl a). Qed.
Theorem C04_lev_bounded a b : (lev a b <= Nat.max (length a) (length b))%nat.
Proof. exact (lev_le_max a b). Qed.
Theorem C04_lev_depends_on_names_only labels labels' de a b : dlev labels de a b == dlev labels' de a b.
Proof. exact (dlev_independent_of_labels labels labels' de a b). Qed.
Theorem C04_lev_nonneg labels de a b : 0 <= de -> 0 <= dlev labels de a b.
Proof. exact (dlev_nonneg labels de a b). Qed.

(* ordinal / numerical: |p_x - p_y| / max(1, largest difference) * delta_empty: symmetric, zero, non-negative, at most delta_empty,
   and independent of the order in which the (label, position) pairs were supplied *)
Theorem C04_ord_symmetric lp de x y : dord lp de x y == dord lp de y x.
Proof. exact (dord_sym lp de x y). Qed.
Theorem C04_ord_zero lp de x : dord lp de x x == 0.
Proof. exact (dord_zero_on_eq lp de x). Qed.
Theorem C04_ord_nonneg lp de x y : 0 <= de -> 0 <= dord lp de x y.
Proof. exact (dord_nonneg lp de x y). Qed.
Theorem C04_ord_le_delta_empty lp de x y : 0 <= de -> In x (map fst lp) -> In y (map fst lp) -> dord lp de x y <= de.
Proof. exact (dord_le_de lp de x y). Qed.
Theorem C04_ord_order_of_labels_irrelevant lp lp' de x y : NoDup (map fst lp) -> Permutation lp lp' -> dord lp de x y == dord lp' de x y.
Proof. exact (dord_perm lp lp' de x y). Qed.

(* precomputed table: symmetric / zero when the table is *)
Theorem C04_table_symmetric cats m de u v : (forall i j, mget m i j == mget m j i) -> dtable cats m de u v == dtable cats m de v u.
Proof. exact (dtable_sym cats m de u v). Qed.
Theorem C04_table_zero cats m de u : (forall i, mget m i i == 0) -> dtable cats m de u u == 0.
Proof. exact (dtable_zero_on_eq cats m de u). Qed.

(* combined = alpha * positional + beta * categorical inherits the laws *)
Theorem C04_comb_symmetric alpha beta dp dc u v : dp u v == dp v u -> dc u v == dc v u ->
  dcomb alpha beta dp dc u v == dcomb alpha beta dp dc v u.
Proof. exact (dcomb_sym alpha beta dp dc u v). Qed.
Theorem C04_comb_nonneg alpha beta dp dc u v : 0 <= alpha -> 0 <= beta -> 0 <= dp u v -> 0 <= dc u v -> 0 <= dcomb alpha beta dp dc u v.
Proof. exact (dcomb_nonneg alpha beta dp dc u v). Qed.
Theorem C04_comb_zero alpha beta dp dc u : dp u u == 0 -> dc u u == 0 -> dcomb alpha beta dp dc u u == 0.
Proof. exact (dcomb_zero_on_eq alpha beta dp dc u). Qed.

(* non-vacuity: the documented values on concrete units *)
Example C04_example :
  dpos (1#2) (mkUQ 0 4 None) (mkUQ 1 3 None) == 1 # 18 /\
  dord [(0%Z, 0); (1%Z, 1); (2%Z, 2)] 1 0%Z 2%Z == 1 /\ dord [(2%Z, 2); (0%Z, 0); (1%Z, 1)] 1 0%Z 2%Z == 1 /\
  dlev [[99;97;116]; [99;97;114;116]]%nat 1 [99;97;116]%nat [99;97;114;116]%nat == 1 # 5.
Proof. vm_compute. repeat split; reflexivity. Qed.

(* ---------------------------------------------------------------------------------------------------------------------------------
   Tie to the source: the definitions of DissimGen.v are what dissimilarity.py says NOW.  These proofs are deliberately kept here (not in
   theories/): they are the obligations a change of the source can break, and they must not take the other properties' builds down. *)
Lemma category_index_eq b cats c : category_index b cats c = cat_index cats c.
Proof. unfold category_index, cat_index. destruct c, b; reflexivity. Qed.
Lemma qnat_inj n : Z.to_nat (Qfloor (inject_Z (Z.of_nat n))) = n.
Proof. rewrite Qfloor_Z. apply Nat2Z.id. Qed.
Lemma qeqb_nat a b : Qeq_bool (inject_Z (Z.of_nat a)) (inject_Z (Z.of_nat b)) = (a =? b)%nat.
Proof.
  destruct (Nat.eqb_spec a b) as [->|Hne].
  - apply Qeq_bool_iff. reflexivity.
  - destruct (Qeq_bool _ _) eqn:E; [|reflexivity]. apply Qeq_bool_iff in E. unfold Qeq in E. simpl in E. lia.
Qed.

(* closes goals that differ by a rearrangement of +, *, / only (so that a harmless reordering in the source does not break the obligation) *)
Ltac same_formula := first [ reflexivity | ring | (unfold Qdiv; ring) ].

(* the source's d() and kernel bodies ARE the model's formulas (kernels: on the rows _build_arrays_continuum writes) *)
Theorem C04_src_pos_unit_form de u v : pos_d de u v == dpos de u v.
Proof. unfold pos_d, dpos. same_formula. Qed.
Theorem C04_src_pos_array_form b cats de u v : pos_d_mat de (unit_row b cats u) (unit_row b cats v) == dpos de u v.
Proof. unfold pos_d_mat, unit_row, dpos. cbn [nth]. same_formula. Qed.
Theorem C04_src_abs_unit_form de u v : abs_d de u v == dabs de u v.
Proof. unfold abs_d, dabs. destruct (cat_eqb (qc u) (qc v)); cbn [negb]; ring. Qed.
Theorem C04_src_abs_array_form b cats de u v : abs_d_mat de (unit_row b cats u) (unit_row b cats v) == dabs_arr cats de u v.
Proof. unfold abs_d_mat, unit_row, dabs_arr. cbn [nth]. rewrite qeqb_nat, !category_index_eq. destruct (_ =? _)%nat; ring. Qed.
Theorem C04_src_table_unit_form cats m de u v : table_d cats de m u v == dtable cats m de u v.
Proof. unfold table_d, dtable. same_formula. Qed.
Theorem C04_src_table_array_form b cats m de u v : table_d_mat de m (unit_row b cats u) (unit_row b cats v) == dtable cats m de u v.
Proof. unfold table_d_mat, unit_row, dtable. cbn [nth]. rewrite !qnat_inj, !category_index_eq. same_formula. Qed.
Theorem C04_src_comb_unit_form alpha beta dp dc u v : comb_d alpha beta dc dp u v == dcomb alpha beta dp dc u v.
Proof. unfold comb_d, dcomb. same_formula. Qed.
Theorem C04_src_comb_array_form alpha beta pm cm dp dc ru rv u v : pm ru rv == dp u v -> cm ru rv == dc u v ->
  comb_d_mat alpha beta cm pm ru rv == dcomb alpha beta dp dc u v.
Proof. intros Hp Hc. unfold comb_d_mat, dcomb. rewrite <- Hp, <- Hc. same_formula. Qed.

(* "in both forms": the kernel applied to the rows equals d() applied to the units, for every unit pair (labels among the categories) *)
Theorem C04_src_forms_agree_pos b cats de u v : pos_d_mat de (unit_row b cats u) (unit_row b cats v) == pos_d de u v.
Proof. rewrite C04_src_pos_array_form, C04_src_pos_unit_form. reflexivity. Qed.
Theorem C04_src_forms_agree_abs b cats de u v :
  (forall x, qc u = Some x -> In x cats) -> (forall x, qc v = Some x -> In x cats) ->
  abs_d_mat de (unit_row b cats u) (unit_row b cats v) == abs_d de u v.
Proof. intros Hu Hv. rewrite C04_src_abs_array_form, C04_src_abs_unit_form, (dabs_arr_eq cats de u v Hu Hv). reflexivity. Qed.
Theorem C04_src_forms_agree_table b cats m de u v : table_d_mat de m (unit_row b cats u) (unit_row b cats v) == table_d cats de m u v.
Proof. rewrite C04_src_table_array_form, C04_src_table_unit_form. reflexivity. Qed.
Theorem C04_src_forms_agree_comb alpha beta b cats de m u v :
  comb_d_mat alpha beta (table_d_mat de m) (pos_d_mat de) (unit_row b cats u) (unit_row b cats v)
  == comb_d alpha beta (table_d cats de m) (pos_d de) u v.
Proof.
  rewrite (C04_src_comb_array_form alpha beta _ _ (dpos de) (dtable cats m de) _ _ u v
             (C04_src_pos_array_form b cats de u v) (C04_src_table_array_form b cats m de u v)).
  rewrite C04_src_comb_unit_form. unfold dcomb.
  rewrite C04_src_pos_unit_form, C04_src_table_unit_form. reflexivity.
Qed.

Example C04_src_example :
  pos_d_mat (1#2) (unit_row true [] (mkUQ 0 4 None)) (unit_row true [] (mkUQ 1 3 None)) == 1 # 18 /\
  abs_d_mat 2 (unit_row true [5%Z; 7%Z] (mkUQ 0 1 (Some 7%Z))) (unit_row true [5%Z; 7%Z] (mkUQ 0 1 None)) == 2.
Proof. vm_compute. split; reflexivity. Qed.
