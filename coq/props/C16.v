(* C16 - The shuffle sampler emits wrapped translations with separated pivots.  Proofs in theories/Sampler/ShuffleProofs.v.
   [repaired = true] is the current code (both fix commits); [repaired = false] the code as it was, whose two defects are refuted below.
   The C16_src_* theorems at the end are re-proved on every run against genprops/SamplerGen.v, the translation of _remove_pivot_segment, of the
   integer rule of _random_from_segments and of the shift / wrap in sample_from_continuum from the CURRENT sampler.py (harness/gen_sampler.py). *)
From Coq Require Import String List Arith ZArith QArith Qround Bool Lia.
From PGA Require Import Sampler.Shuffle Sampler.ShuffleProofs Sampler.ShuffleRetry.
From PGAprops Require Import SamplerGen ShapesGen.
Import ListNotations.
Local Open Scope Q_scope.

(* removing a pivot's zone: exactly the available points at least dist away from the pivot remain *)
Theorem C16_remove_zone p dist segs x : 0 <= dist ->
  (available x (remove_pivot true p dist segs) <-> (available x segs /\ far dist p x)).
Proof. exact (remove_pivot_spec p dist segs x). Qed.
(* after pivots ps: exactly the points of the bounds at least dist away from every pivot *)
Theorem C16_available_after_pivots dist binf bsup ps x : 0 <= dist ->
  (available x (avail_after true dist binf bsup ps) <-> ((binf <= x /\ x < bsup) /\ forall p, In p ps -> far dist p x)).
Proof. exact (avail_after_spec dist binf bsup ps x). Qed.

(* FULL (float pivots): for every stream of draws respecting the primitives' contracts, every pivot lies within the bounds and every pivot drawn
   while segments remain is at least dist = half the average unit length away from ALL earlier pivots *)
Theorem C16_pivots_separated_float dist binf bsup gt k prev st ps anns st' :
  0 <= dist -> binf < bsup ->
  contract true false dist binf bsup k (avail_after true dist binf bsup prev) st ->
  sample_pass true false dist binf bsup gt k (avail_after true dist binf bsup prev) st = Some (ps, anns, st') ->
  (forall p b, In (p, b) ps -> binf <= p /\ p < bsup) /\
  (forall i p, nth_error ps i = Some (p, true) ->
      (forall q, In q prev -> far dist q p) /\ (forall j q b, (j < i)%nat -> nth_error ps j = Some (q, b) -> far dist q p)).
Proof. exact (pivots_separated_float dist binf bsup gt k prev st ps anns st'). Qed.
(* FULL (integer pivots): pivots are whole numbers, and are at least dist apart as long as each chosen segment holds a whole number *)
Theorem C16_int_pivots_whole repaired dist binf bsup gt k avail st ps anns st' :
  sample_pass repaired true dist binf bsup gt k avail st = Some (ps, anns, st') ->
  forall p, In (p, true) ps -> exists z : Z, p = inject_Z z.
Proof. exact (int_pivots_whole repaired dist binf bsup gt k avail st ps anns st'). Qed.
Theorem C16_pivots_separated_int dist binf bsup gt k st ps anns st' :
  0 <= dist -> binf < bsup ->
  contract true true dist binf bsup k [(binf, bsup)] st ->
  chosen_have_int dist binf bsup k [(binf, bsup)] st ->
  sample_pass true true dist binf bsup gt k [(binf, bsup)] st = Some (ps, anns, st') ->
  forall i j p q (b b' : bool), (j < i)%nat -> nth_error ps i = Some (p, true) -> nth_error ps j = Some (q, b') -> apart dist q p.
Proof. exact (pivots_separated_int dist binf bsup gt k st ps anns st'). Qed.

(* REFUTED on the original code (both repaired by fix commits, see known_findings.txt) *)
Theorem C16_original_removal_widens :
  exists dist binf bsup p1 p2 x, 0 <= dist /\ available x (avail_after false dist binf bsup [p1; p2]) /\ ~ far dist p1 x.
Proof. exact widening_refuted. Qed.
Theorem C16_original_int_rule_breaks_separation :
  exists dist binf bsup (gt : list (list unitS)) st ps anns st',
    0 <= dist /\ contract false true dist binf bsup 2 [(binf, bsup)] st /\
    sample_pass false true dist binf bsup gt 2 [(binf, bsup)] st = Some (ps, anns, st') /\
    exists p q, map fst ps = [p; q] /\ ~ far dist p q.
Proof. exact int_pivot_refuted. Qed.

(* structure of a sample: as many sampled annotators as ground-truth annotators, each the image of one ground-truth annotator's units under the
   translation by its pivot (same number of units), durations and labels unchanged, wrapped by the continuum's length when the start passes the upper bound *)
Theorem C16_sample_structure repaired int_mode dist binf bsup gt k avail st ps anns st' :
  sample_pass repaired int_mode dist binf bsup gt k avail st = Some (ps, anns, st') ->
  length ps = k /\ length anns = k /\
  forall i a us, nth_error anns i = Some (a, us) ->
    exists p b, nth_error ps i = Some (p, b) /\ us = map (shift_unit p binf bsup) (nth a gt []) /\ length us = length (nth a gt []).
Proof. exact (sample_pass_structure repaired int_mode dist binf bsup gt k avail st ps anns st'). Qed.
Theorem C16_translation_keeps_duration p binf bsup u : se (shift_unit p binf bsup u) - ss (shift_unit p binf bsup u) == se u - ss u.
Proof. exact (shift_unit_duration p binf bsup u). Qed.
Theorem C16_translation_keeps_label p binf bsup u : sl (shift_unit p binf bsup u) = sl u.
Proof. exact (shift_unit_label p binf bsup u). Qed.
Theorem C16_wrap p binf bsup u :
  (ss u + p <= bsup -> ss (shift_unit p binf bsup u) == ss u + p) /\
  (bsup < ss u + p -> ss (shift_unit p binf bsup u) == ss u + p - (bsup - binf)).
Proof. exact (shift_unit_start p binf bsup u). Qed.

(* the retry loop (`while not new_continuum`): what is returned holds a unit, is the result of exactly one pass over a later part of the draw
   stream (so every theorem above about a pass applies to it), and when every ground-truth annotator has a unit the first pass is returned *)
Theorem C16_sample_nonempty fuel repaired int_mode dist binf bsup gt st ps anns st' :
  sample_retry fuel repaired int_mode dist binf bsup gt st = Some (ps, anns, st') -> exists a u us, In (a, u :: us) anns.
Proof. exact (sample_retry_nonempty fuel repaired int_mode dist binf bsup gt st ps anns st'). Qed.
Theorem C16_returned_sample_is_one_pass fuel repaired int_mode dist binf bsup gt st ps anns st' :
  sample_retry fuel repaired int_mode dist binf bsup gt st = Some (ps, anns, st') ->
  pass_empty anns = false /\ exists st0, sample_once repaired int_mode dist binf bsup gt st0 = Some (ps, anns, st').
Proof. exact (sample_retry_spec fuel repaired int_mode dist binf bsup gt st ps anns st'). Qed.
Theorem C16_no_retry_when_all_annotators_have_units fuel repaired int_mode dist binf bsup gt st r :
  gt <> [] -> Forall (fun us => us <> []) gt ->
  sample_once repaired int_mode dist binf bsup gt st = Some r ->
  (forall a, In a (snd (fst r)) -> (fst a < length gt)%nat) ->
  sample_retry (S fuel) repaired int_mode dist binf bsup gt st = Some r.
Proof. exact (no_retry_when_all_annotators_have_units fuel repaired int_mode dist binf bsup gt st r). Qed.

(* ---------------------------------------------------------------------------------------------------------------------------------
   Tie to the source: the code as written IS the repaired model (so the theorems above with repaired = true are about the current code):
   the zone removal per segment and over the popped list, the integer rule, the shift / wrap of a unit, and the statements fixing the rest of
   a pass (half the average unit length, the bounds, the initial segment, the annotator choice, the retry loop). *)
Theorem C16_src_piece p d sg : piece_src p d sg = piece true p d sg.
Proof. destruct sg as [s e]. reflexivity. Qed.
Theorem C16_src_remove_pivot p d l : remove_pivot_src p d l = remove_pivot true p d l.
Proof.
  unfold remove_pivot_src, remove_pivot. induction (rev l) as [|sg r IH]; [reflexivity|].
  cbn [flat_map]. rewrite IH, C16_src_piece. reflexivity.
Qed.
Theorem C16_src_int_pivot sg x : int_pivot_src sg x = int_pivot true sg x.
Proof.
  unfold int_pivot_src, int_pivot, in_closed. cbv zeta. cbn [negb].
  destruct (Qle_bool (fst sg) (qtrunc x) && Qle_bool (qtrunc x) (snd sg)); reflexivity.
Qed.
Theorem C16_src_shift_unit p binf bsup u : shift_unit_src p binf bsup u = shift_unit p binf bsup u.
Proof. reflexivity. Qed.
Theorem C16_src_shape :
  sample_shape_src =
  [("min_dist_between_pivots", "continuum.avg_length_unit / 2");
   ("(bound_inf, bound_sup)", "continuum.bounds");
   ("segments_available", "[Segment(bound_inf, bound_sup)] | self._remove_pivot_segment(pivot, segments_available, min_dist_between_pivots)");
   ("rnd_annotator", "np.random.choice(annotators)");
   ("new_annotator", "f'Sampled_annotation {idx}'");
   ("annotators", "self._ground_truth_annotators");
   ("while", "not new_continuum");
   ("for", "range(len(annotators)); continuum.iter_annotator(rnd_annotator)")]%string.
Proof. reflexivity. Qed.

Fixpoint lookup_src (k : string) (l : list (string * string)) : option string :=
  match l with [] => None | (a, b) :: r => if String.eqb k a then Some b else lookup_src k r end.
(* the reference's statistics the sampler reads: mean unit length over all units, the stored bounds, and the fresh continuum a sample starts from *)
Theorem C16_src_reference_statistics :
  lookup_src "property avg_length_unit" continuum_src = Some "(self) return sum((unit.segment.duration for _, unit in self)) / self.num_units"%string /\
  lookup_src "property bounds" continuum_src = Some "(self) return (self.bound_inf, self.bound_sup)"%string /\
  lookup_src "copy_flush" continuum_src = Some "(self) continuum = Continuum(self.uri); continuum.bound_inf, continuum.bound_sup = (self.bound_inf, self.bound_sup); continuum.best_window_size = self.best_window_size; return continuum"%string.
Proof. repeat split. Qed.
