(* C17 - Alignment validity checks accept exactly partitions and covers.  Proofs in theories/Check/Proofs.v. *)
From Coq Require Import List Arith ZArith Bool Permutation.
From PGA Require Import Check.Model Check.Proofs.
Import ListNotations.

(* exact characterisation of Alignment.check *)
Theorem C17_check_ok cont al :
  check_align cont al = ROk <-> (uniform al /\ (forall p, In p cont -> In p (al_pairs al)) /\ NoDup (al_pairs al)).
Proof. exact (check_align_ok cont al). Qed.
Theorem C17_check_set_partition_error cont al :
  check_align cont al = RPartition <-> (uniform al /\ ((exists p, In p cont /\ ~ In p (al_pairs al)) \/ ~ NoDup (al_pairs al))).
Proof. exact (check_align_partition_error cont al). Qed.
(* FULL (alignments over the continuum's own pairs): success iff every (annotator, unit) occurs exactly once *)
Theorem C17_check_iff_exactly_once cont al : NoDup cont -> incl (al_pairs al) cont -> uniform al ->
  (check_align cont al = ROk <-> forall p, In p cont -> countp p (al_pairs al) = 1).
Proof. exact (check_align_exactly_once cont al). Qed.

(* SoftAlignment.check: success iff every unit occurs at least once *)
Theorem C17_soft_ok cont al :
  check_soft cont al = ROk <-> (uniform al /\ incl (al_pairs al) cont /\ forall p, In p cont -> In p (al_pairs al)).
Proof. exact (check_soft_ok cont al). Qed.
Theorem C17_soft_iff_at_least_once cont al : incl (al_pairs al) cont -> uniform al ->
  (check_soft cont al = ROk <-> forall p, In p cont -> 1 <= countp p (al_pairs al)).
Proof. exact (check_soft_at_least_once cont al). Qed.
Theorem C17_soft_set_partition_error cont al :
  check_soft cont al = RPartition <-> (uniform al /\ incl (al_pairs al) cont /\ exists p, In p cont /\ ~ In p (al_pairs al)).
Proof. exact (check_soft_partition_error cont al). Qed.

(* the outcome depends neither on the order of the unitary alignments nor on the order of slots inside them *)
Theorem C17_check_order_independent cont cont' al al' : Permutation cont cont' -> Permutation al al' ->
  check_align cont al = check_align cont' al'.
Proof. exact (check_align_perm cont cont' al al'). Qed.
Theorem C17_soft_order_independent cont cont' al al' : Permutation cont cont' -> Permutation al al' ->
  check_soft cont al = check_soft cont' al'.
Proof. exact (check_soft_perm cont cont' al al'). Qed.
Theorem C17_check_slot_order_independent cont al al' : Forall2 (@Permutation _) al al' -> check_align cont al = check_align cont al'.
Proof. exact (check_align_slot_perm cont al al'). Qed.
Theorem C17_soft_slot_order_independent cont al al' : Forall2 (@Permutation _) al al' -> check_soft cont al = check_soft cont al'.
Proof. exact (check_soft_slot_perm cont al al'). Qed.

Example C17_example :
  let cont := [(0, 0); (0, 1); (1, 0)]%Z in
  check_align cont [[(0, Some 0); (1, Some 0)]; [(0, Some 1); (1, None)]]%Z = ROk /\
  check_align cont [[(0, Some 0); (1, Some 0)]]%Z = RPartition /\
  check_align cont [[(0, Some 0); (1, Some 0)]; [(0, Some 1); (1, Some 0)]]%Z = RPartition /\
  check_soft cont [[(0, Some 0); (1, Some 0)]; [(0, Some 1); (1, Some 0)]]%Z = ROk /\
  check_align cont [] = RPartition /\ check_align [] [] = ROk.
Proof. vm_compute. repeat split. Qed.
