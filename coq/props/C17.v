(* C17 - Alignment validity checks accept exactly partitions and covers.  Proofs in theories/Check/Proofs.v. *)
From Coq Require Import String List Arith ZArith Bool Permutation.
From PGA Require Import Check.Model Check.Proofs.
From PGAprops Require Import ShapesGen.
Import ListNotations.

(* exact characterisation of Alignment.check *)
Theorem C17_check_ok cont al :
  check_align cont al = ROk <-> (uniform al /\ (forall p, In p cont -> In p (al_pairs al)) /\ NoDup (al_pairs al)).
Proof. exact (check_align_ok cont al). Qed.
Theorem C17_check_set_partition_error cont al :
  check_align cont al = RPartition <-> (uniform al /\ ((exists p, In p cont /\ ~ In p (al_pairs al)) \/ ~ NoDup (al_pairs al))).
Proof. exact (check_align_partition_error cont al). Qed.
(* FULL (alignments over the continuum's own pairs): success iff every (annotator, unit) occurs exactly once *)
Theorem C17_check_iff_exactly_once cont al : NoDup cont -> incl (al_pairs al) cont -> uniform al ->
  (check_align cont al = ROk <-> forall p, In p cont -> countp p (al_pairs al) = 1).
Proof. exact (check_align_exactly_once cont al). Qed.

(* SoftAlignment.check: success iff every unit occurs at least once *)
Theorem C17_soft_ok cont al :
  check_soft cont al = ROk <-> (uniform al /\ incl (al_pairs al) cont /\ forall p, In p cont -> In p (al_pairs al)).
Proof. exact (check_soft_ok cont al). Qed.
Theorem C17_soft_iff_at_least_once cont al : incl (al_pairs al) cont -> uniform al ->
  (check_soft cont al = ROk <-> forall p, In p cont -> 1 <= countp p (al_pairs al)).
Proof. exact (check_soft_at_least_once cont al). Qed.
Theorem C17_soft_set_partition_error cont al :
  check_soft cont al = RPartition <-> (uniform al /\ incl (al_pairs al) cont /\ exists p, In p cont /\ ~ In p (al_pairs al)).
Proof. exact (check_soft_partition_error cont al). Qed.

(* the outcome depends neither on the order of the unitary alignments nor on the order of slots inside them *)
Theorem C17_check_order_independent cont cont' al al' : Permutation cont cont' -> Permutation al al' ->
  check_align cont al = check_align cont' al'.
Proof. exact (check_align_perm cont cont' al al'). Qed.
Theorem C17_soft_order_independent cont cont' al al' : Permutation cont cont' -> Permutation al al' ->
  check_soft cont al = check_soft cont' al'.
Proof. exact (check_soft_perm cont cont' al al'). Qed.
Theorem C17_check_slot_order_independent cont al al' : Forall2 (@Permutation _) al al' -> check_align cont al = check_align cont al'.
Proof. exact (check_align_slot_perm cont al al'). Qed.
Theorem C17_soft_slot_order_independent cont al al' : Forall2 (@Permutation _) al al' -> check_soft cont al = check_soft cont al'.
Proof. exact (check_soft_slot_perm cont al al'). Qed.

Example C17_example :
  let cont := [(0, 0); (0, 1); (1, 0)]%Z in
  check_align cont [[(0, Some 0); (1, Some 0)]; [(0, Some 1); (1, None)]]%Z = ROk /\
  check_align cont [[(0, Some 0); (1, Some 0)]]%Z = RPartition /\
  check_align cont [[(0, Some 0); (1, Some 0)]; [(0, Some 1); (1, Some 0)]]%Z = RPartition /\
  check_soft cont [[(0, Some 0); (1, Some 0)]; [(0, Some 1); (1, Some 0)]]%Z = ROk /\
  check_align cont [] = RPartition /\ check_align [] [] = ROk.
Proof. vm_compute. repeat split. Qed.

(* ---------------------------------------------------------------------------------------------------------------------------------
   Tie to the source (re-proved on every run against genprops/ShapesGen.v, read from the CURRENT sources by harness/gen_shapes.py): the bodies
   below, as normalised text, are the ones the model follows statement by statement. *)
Fixpoint lookup_src (k : string) (l : list (string * string)) : option string :=
  match l with [] => None | (a, b) :: r => if String.eqb k a then Some b else lookup_src k r end.
(* Alignment.check: lengths, then the continuum's pairs not among the alignment's real pairs (missing), then the real pairs counted more than once (repeated); SoftAlignment.check: lengths, an occurrence table indexed by the continuum's pairs (a foreign pair is a KeyError), then every count must be non-zero *)
Theorem C17_src_checks :
  lookup_src "check" alignment_src = Some "(self, continuum=None) if continuum is None: [if self.continuum is None: [raise ValueError]; continuum = self.continuum]; first_len = len(self.unitary_alignments[0].n_tuple) if self.unitary_alignments else 0; for unit_align in self.unitary_alignments: [if len(unit_align.n_tuple) != first_len: [raise ValueError]]; continuum_tuples = set(); for (annotator, unit) in continuum: [continuum_tuples.add((annotator, unit))]; alignment_tuples = list(); for unitary_alignment in self.unitary_alignments: [for (annotator, unit) in unitary_alignment.n_tuple: [if unit is None: [continue]; alignment_tuples.append((annotator, unit))]]; missing_tuples = continuum_tuples - set(alignment_tuples); if missing_tuples: [repeated_tuples_str = ', '.join((f'{annotator}->{unit}' for annotator, unit in missing_tuples)); raise SetPartitionError]; tuples_counts = Counter(alignment_tuples); repeated_tuples = {tup for tup, count in tuples_counts.items() if count > 1}; if repeated_tuples: [repeated_tuples_str = ', '.join((f'{annotator}->{unit}' for annotator, unit in repeated_tuples)); raise SetPartitionError]"%string /\
  lookup_src "check" softalignment_src = Some "(self, continuum=None) if continuum is None: [if self.continuum is None: [raise ValueError]; continuum = self.continuum]; first_len = len(self.unitary_alignments[0].n_tuple) if self.unitary_alignments else 0; for unit_align in self.unitary_alignments: [if len(unit_align.n_tuple) != first_len: [raise ValueError]]; unit_occurences = SortedDict({annotator: SortedDict({unit: 0 for unit in units}) for annotator, units in continuum._annotations.items()}); for (i, unitary_align) in enumerate(self): [for (annotator, unit) in unitary_align.n_tuple: [if unit is not None: [unit_occurences[annotator][unit] += 1]]]; for (annotator, factors) in unit_occurences.items(): [for (unit, factor) in factors.items(): [if factor == 0: [raise SetPartitionError]]]"%string.
Proof. repeat split. Qed.
