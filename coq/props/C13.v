(* C13 - The continuum behaves as sorted unit sets per annotator under any history.
   Property theorems only; proofs in theories/Cont/Proofs.v. *)
From Coq Require Import List Arith ZArith Bool Sorted.
From PGA Require Import Cont.Model Cont.Proofs.
Import ListNotations.
Local Open Scope Z_scope.

(* the documented order on units is a strict total order (start, end, then label with unlabelled first) *)
Theorem C13_order_irreflexive u : ~ unit_lt u u.
Proof. exact (unit_lt_irrefl u). Qed.
Theorem C13_order_transitive u v w : unit_lt u v -> unit_lt v w -> unit_lt u w.
Proof. exact (unit_lt_trans u v w). Qed.
Theorem C13_order_total u v : unit_lt u v \/ u = v \/ unit_lt v u.
Proof. exact (unit_lt_total u v). Qed.

(* FULL: every history of operations keeps every continuum in the invariant: annotators strictly sorted, each annotator's
   units strictly sorted by the documented order (hence without duplicates), categories sorted and covering every label in use,
   bounds enclosing every unit, every unit longer than the segment precision *)
Theorem C13_invariant_all_histories prec rs ops : Forall (Inv prec) rs -> Forall (Inv prec) (run_ops prec rs ops).
Proof. exact (run_ops_inv prec rs ops). Qed.
Theorem C13_invariant_initially prec : Inv prec empty_cont.
Proof. exact (Inv_empty prec). Qed.

(* refinement to the set-per-annotator specification, operation by operation *)
Theorem C13_add_refines prec c a u : Inv prec c -> prec < ue u - us u ->
  exists c', add prec c a u = (c', Ok) /\ Inv prec c' /\
    (forall b, has_ann c' b <-> (b = a \/ has_ann c b)) /\
    (forall b v, In v (units c' b) <-> ((b = a /\ v = u) \/ In v (units c b))) /\
    (forall x, In x (cats c') <-> (ul u = Some x \/ In x (cats c))) /\
    binf c' = Z.min (binf c) (us u) /\ bsup c' = Z.max (bsup c) (ue u).
Proof. exact (add_spec prec c a u). Qed.
Theorem C13_zero_length_rejected prec c a u : ue u - us u <= prec -> add prec c a u = (c, ErrZeroLength).
Proof. exact (add_zero_length prec c a u). Qed.
Theorem C13_remove_refines prec c a u : Inv prec c ->
  (In u (units c a) ->
     exists c', remove c a u = (c', Ok) /\ Inv prec c' /\
       (forall b, has_ann c' b <-> has_ann c b) /\
       (forall b v, In v (units c' b) <-> (In v (units c b) /\ ~ (b = a /\ v = u))) /\
       cats c' = cats c /\ binf c' = binf c /\ bsup c' = bsup c) /\
  (~ In u (units c a) -> remove c a u = (c, ErrKey)).
Proof. exact (remove_spec prec c a u). Qed.
Theorem C13_merge_refines prec c d : Inv prec c -> Inv prec d ->
  let m := merge prec c d in Inv prec m /\
    (forall b, has_ann m b <-> (has_ann c b \/ has_ann d b)) /\
    (forall b v, In v (units m b) <-> (In v (units c b) \/ In v (units d b))) /\
    (forall x, In x (cats m) <-> (In x (cats c) \/ exists b v, In v (units d b) /\ ul v = Some x)).
Proof. exact (merge_spec prec c d). Qed.
Theorem C13_merge_new_eq_inplace prec rs dst r s :
  rget (fst (step prec rs (OMergeNew dst r s))) dst = rget (fst (step prec rs (OMergeInPlace r s))) r \/ (length rs <= dst)%nat \/ (length rs <= r)%nat.
Proof. exact (merge_new_eq_inplace prec rs dst r s). Qed.

(* what a continuum exposes is a function of its set-per-annotator abstraction alone (canonical form) *)
Theorem C13_canonical prec c d : Inv prec c -> Inv prec d ->
  (forall b, has_ann c b <-> has_ann d b) -> (forall b v, In v (units c b) <-> In v (units d b)) -> anns c = anns d.
Proof. exact (canonical prec c d). Qed.
(* equality of continua is equality of (annotators, units): reflexive, symmetric, transitive *)
Theorem C13_equality prec c d : Inv prec c -> Inv prec d -> (cont_eqb c d = true <-> anns c = anns d).
Proof. exact (cont_eqb_spec prec c d). Qed.

(* bounds after a reset are exactly the units' extent *)
Theorem C13_reset_tight prec c : Inv prec c -> let r := reset_bounds c in
  Inv prec r /\ anns r = anns c /\ cats r = cats c /\
  (all_pairs c = [] -> binf r = 0 /\ bsup r = 0) /\
  (all_pairs c <> [] ->
     (forall a u, In (a, u) (all_pairs c) -> binf r <= us u /\ ue u <= bsup r) /\
     (exists a u, In (a, u) (all_pairs c) /\ binf r = us u) /\ (exists a u, In (a, u) (all_pairs c) /\ bsup r = ue u)).
Proof. exact (reset_bounds_spec prec c). Qed.

(* non-vacuity: a history with a rejected zero-length add, a nested unit, a removal, a merge and a reset *)
Example C13_example :
  let u1 := mkU 0 100 (Some 1) in let u2 := mkU 1 2 None in
  let rs := run_ops 0 [empty_cont; empty_cont]
              [OAdd 0 5 u1; OAdd 0 5 u2; OAdd 0 5 (mkU 3 3 None); OAdd 1 2 u2; OMergeInPlace 0 1; ORemove 0 2 u2; OResetBounds 0] in
  anns (rget rs 0) = [(2, []); (5, [u1; u2])] /\ cats (rget rs 0) = [1] /\ binf (rget rs 0) = 0 /\ bsup (rget rs 0) = 100.
Proof. vm_compute. repeat split. Qed.
