(* C13 - The continuum behaves as sorted unit sets per annotator under any history.
   Property theorems only; proofs in theories/Cont/Proofs.v - except the C13_src_* theorems at the end, re-proved on every run against
   genprops/ContGen.v, the translation of Unit.__lt__ and Continuum.__eq__ / __ne__ / __bool__ from the CURRENT continuum.py (harness/gen_cont.py). *)
From Coq Require Import String List Arith ZArith Bool Sorted Lia.
From PGA Require Import Cont.Model Cont.Proofs.
From PGAprops Require Import ContGen ShapesGen.
Import ListNotations.
Local Open Scope Z_scope.

(* the documented order on units is a strict total order (start, end, then label with unlabelled first) *)
Theorem C13_order_irreflexive u : ~ unit_lt u u.
Proof. exact (unit_lt_irrefl u). Qed.
Theorem C13_order_transitive u v w : unit_lt u v -> unit_lt v w -> unit_lt u w.
Proof. exact (unit_lt_trans u v w). Qed.
Theorem C13_order_total u v : unit_lt u v \/ u = v \/ unit_lt v u.
Proof. exact (unit_lt_total u v). Qed.

(* FULL: every history of operations keeps every continuum in the invariant: annotators strictly sorted, each annotator's
   units strictly sorted by the documented order (hence without duplicates), categories sorted and covering every label in use,
   bounds enclosing every unit, every unit longer than the segment precision *)
Theorem C13_invariant_all_histories prec rs ops : Forall (Inv prec) rs -> Forall (Inv prec) (run_ops prec rs ops).
Proof. exact (run_ops_inv prec rs ops). Qed.
Theorem C13_invariant_initially prec : Inv prec empty_cont.
Proof. exact (Inv_empty prec). Qed.

(* refinement to the set-per-annotator specification, operation by operation *)
Theorem C13_add_refines prec c a u : Inv prec c -> prec < ue u - us u ->
  exists c', add prec c a u = (c', Ok) /\ Inv prec c' /\
    (forall b, has_ann c' b <-> (b = a \/ has_ann c b)) /\
    (forall b v, In v (units c' b) <-> ((b = a /\ v = u) \/ In v (units c b))) /\
    (forall x, In x (cats c') <-> (ul u = Some x \/ In x (cats c))) /\
    binf c' = Z.min (binf c) (us u) /\ bsup c' = Z.max (bsup c) (ue u).
Proof. exact (add_spec prec c a u). Qed.
Theorem C13_zero_length_rejected prec c a u : ue u - us u <= prec -> add prec c a u = (c, ErrZeroLength).
Proof. exact (add_zero_length prec c a u). Qed.
Theorem C13_remove_refines prec c a u : Inv prec c ->
  (In u (units c a) ->
     exists c', remove c a u = (c', Ok) /\ Inv prec c' /\
       (forall b, has_ann c' b <-> has_ann c b) /\
       (forall b v, In v (units c' b) <-> (In v (units c b) /\ ~ (b = a /\ v = u))) /\
       cats c' = cats c /\ binf c' = binf c /\ bsup c' = bsup c) /\
  (~ In u (units c a) -> remove c a u = (c, ErrKey)).
Proof. exact (remove_spec prec c a u). Qed.
Theorem C13_merge_refines prec c d : Inv prec c -> Inv prec d ->
  let m := merge prec c d in Inv prec m /\
    (forall b, has_ann m b <-> (has_ann c b \/ has_ann d b)) /\
    (forall b v, In v (units m b) <-> (In v (units c b) \/ In v (units d b))) /\
    (forall x, In x (cats m) <-> (In x (cats c) \/ exists b v, In v (units d b) /\ ul v = Some x)).
Proof. exact (merge_spec prec c d). Qed.
Theorem C13_merge_new_eq_inplace prec rs dst r s :
  rget (fst (step prec rs (OMergeNew dst r s))) dst = rget (fst (step prec rs (OMergeInPlace r s))) r \/ (length rs <= dst)%nat \/ (length rs <= r)%nat.
Proof. exact (merge_new_eq_inplace prec rs dst r s). Qed.

(* what a continuum exposes is a function of its set-per-annotator abstraction alone (canonical form) *)
Theorem C13_canonical prec c d : Inv prec c -> Inv prec d ->
  (forall b, has_ann c b <-> has_ann d b) -> (forall b v, In v (units c b) <-> In v (units d b)) -> anns c = anns d.
Proof. exact (canonical prec c d). Qed.
(* equality of continua is equality of (annotators, units): reflexive, symmetric, transitive *)
Theorem C13_equality prec c d : Inv prec c -> Inv prec d -> (cont_eqb c d = true <-> anns c = anns d).
Proof. exact (cont_eqb_spec prec c d). Qed.

(* bounds after a reset are exactly the units' extent *)
Theorem C13_reset_tight prec c : Inv prec c -> let r := reset_bounds c in
  Inv prec r /\ anns r = anns c /\ cats r = cats c /\
  (all_pairs c = [] -> binf r = 0 /\ bsup r = 0) /\
  (all_pairs c <> [] ->
     (forall a u, In (a, u) (all_pairs c) -> binf r <= us u /\ ue u <= bsup r) /\
     (exists a u, In (a, u) (all_pairs c) /\ binf r = us u) /\ (exists a u, In (a, u) (all_pairs c) /\ bsup r = ue u)).
Proof. exact (reset_bounds_spec prec c). Qed.

(* non-vacuity: a history with a rejected zero-length add, a nested unit, a removal, a merge and a reset *)
Example C13_example :
  let u1 := mkU 0 100 (Some 1) in let u2 := mkU 1 2 None in
  let rs := run_ops 0 [empty_cont; empty_cont]
              [OAdd 0 5 u1; OAdd 0 5 u2; OAdd 0 5 (mkU 3 3 None); OAdd 1 2 u2; OMergeInPlace 0 1; ORemove 0 2 u2; OResetBounds 0] in
  anns (rget rs 0) = [(2, []); (5, [u1; u2])] /\ cats (rget rs 0) = [1] /\ binf (rget rs 0) = 0 /\ bsup (rget rs 0) = 100.
Proof. vm_compute. repeat split. Qed.

(* ---------------------------------------------------------------------------------------------------------------------------------
   Tie to the source: Unit.__lt__ as written IS the model's order (so the order theorems above are about the code's comparison), the class
   still derives ==, hash and the other comparisons from the two fields; Continuum.__eq__ / __bool__ as written ARE the model's. *)
Theorem C13_src_unit_lt u v : unit_lt_src u v = unit_ltb u v.
Proof.
  unfold unit_lt_src, unit_ltb, seg_eqb, seg_ltb, lab_ltb.
  destruct ((us u =? us v) && (ue u =? ue v)); [|reflexivity].
  destruct (ul u), (ul v); reflexivity.
Qed.
Theorem C13_src_unit_class :
  unit_class_src = ["total_ordering"; "dataclass(frozen=True, eq=True)"; "segment: Segment"; "annotation: Optional[str] = None"]%string.
Proof. reflexivity. Qed.

Lemma list_eqb_true a b : list_eqb a b = true <-> a = b.
Proof.
  revert b. induction a as [|x a IH]; intros [|y b]; cbn [list_eqb]; split; intros H; try reflexivity; try discriminate.
  - apply andb_true_iff in H. destruct H as [H1 H2]. apply Z.eqb_eq in H1. apply IH in H2. congruence.
  - injection H as -> ->. rewrite Z.eqb_refl. apply IH. reflexivity.
Qed.
Lemma forallb_ext' {A} (f g : A -> bool) l : (forall x, f x = g x) -> forallb f l = forallb g l.
Proof. intros H. induction l as [|x l IH]; [reflexivity|]. cbn. rewrite H, IH. reflexivity. Qed.
Theorem C13_src_continuum_eq c d : continuum_eq_src c d = cont_eqb c d.
Proof.
  unfold continuum_eq_src, cont_eqb.
  destruct (list_eq_dec Z.eq_dec (map fst (anns c)) (map fst (anns d))) as [E|E].
  - rewrite (proj2 (list_eqb_true _ _) E). cbn [negb].
    destruct (length (all_pairs c) =? length (all_pairs d))%nat; cbn [negb andb]; [|reflexivity].
    apply forallb_ext'. intros p. rewrite negb_orb, !negb_involutive. reflexivity.
  - destruct (list_eqb (map fst (anns c)) (map fst (anns d))) eqn:F; [|reflexivity].
    apply list_eqb_true in F. contradiction.
Qed.
Theorem C13_src_continuum_bool c : continuum_bool_src c = cont_bool c.
Proof.
  unfold continuum_bool_src, cont_bool. induction (anns c) as [|[a l] r IH]; [reflexivity|].
  cbn [forallb existsb snd]. destruct l; cbn; [exact IH|reflexivity].
Qed.

(* ---------------------------------------------------------------------------------------------------------------------------------
   Tie to the source (re-proved on every run against genprops/ShapesGen.v, read from the CURRENT sources by harness/gen_shapes.py): the bodies
   below, as normalised text, are the ones the model follows statement by statement. *)
Fixpoint lookup_src (k : string) (l : list (string * string)) : option string :=
  match l with [] => None | (a, b) :: r => if String.eqb k a then Some b else lookup_src k r end.
(* the container operations the model refines *)
Theorem C13_src_operations :
  lookup_src "add" continuum_src = Some "(self, annotator, segment, annotation=None) if segment.duration == 0.0: [raise ValueError]; if annotator not in self._annotations: [self._annotations[annotator] = SortedSet()]; if annotation is not None: [self._categories.add(annotation)]; self._annotations[annotator].add(Unit(segment, annotation)); self.bound_inf = min(self.bound_inf, segment.start); self.bound_sup = max(self.bound_sup, segment.end)"%string /\
  lookup_src "add_annotator" continuum_src = Some "(self, annotator) if annotator not in self._annotations: [self._annotations[annotator] = SortedSet()]"%string /\
  lookup_src "remove" continuum_src = Some "(self, annotator, unit) annotations: SortedSet = self._annotations[annotator]; annotations.remove(unit)"%string /\
  lookup_src "reset_bounds" continuum_src = Some "(self) self.bound_inf = min((next(iter(annotations)).segment.start for annotations in self._annotations.values() if annotations), default=0.0); self.bound_sup = max((unit.segment.end for annotations in self._annotations.values() for unit in annotations), default=0.0)"%string /\
  lookup_src "merge" continuum_src = Some "(self, continuum, in_place=False) current_cont = self if in_place else self.copy(); for annotator in continuum.annotators: [current_cont.add_annotator(annotator)]; for (annotator, unit) in continuum: [current_cont.add(annotator, unit.segment, unit.annotation)]; if not in_place: [return current_cont]"%string /\
  lookup_src "copy" continuum_src = Some "(self) continuum = Continuum(self.uri); continuum._annotations = deepcopy(self._annotations); continuum._categories = SortedSet(self._categories); continuum.bound_inf, continuum.bound_sup = (self.bound_inf, self.bound_sup); continuum.best_window_size = self.best_window_size; return continuum"%string /\
  lookup_src "copy_flush" continuum_src = Some "(self) continuum = Continuum(self.uri); continuum.bound_inf, continuum.bound_sup = (self.bound_inf, self.bound_sup); continuum.best_window_size = self.best_window_size; return continuum"%string /\
  lookup_src "__iter__" continuum_src = Some "(self) for (annotator, annotations) in self._annotations.items(): [for unit in annotations: [yield (annotator, unit)]]"%string /\
  lookup_src "iter_annotator" continuum_src = Some "(self, annotator) for unit in self._annotations[annotator]: [yield unit]"%string /\
  lookup_src "iterunits" continuum_src = Some "(self, annotator) return iter(self._annotations[annotator])"%string /\
  lookup_src "__getitem__" continuum_src = Some "(self, keys) try: [if isinstance(keys, str): [return deepcopy(self._annotations[keys])] else: [annotator, idx = keys; try: [return deepcopy(self._annotations[annotator][idx])] except IndexError: [raise IndexError]]] except KeyError: [raise KeyError]"%string /\
  lookup_src "__len__" continuum_src = Some "(self) return len(self._annotations)"%string /\
  lookup_src "property num_units" continuum_src = Some "(self) return sum((len(units) for units in self._annotations.values()))"%string /\
  lookup_src "property categories" continuum_src = Some "(self) return self._categories"%string /\
  lookup_src "property annotators" continuum_src = Some "(self) return SortedSet(self._annotations.keys())"%string /\
  lookup_src "property bounds" continuum_src = Some "(self) return (self.bound_inf, self.bound_sup)"%string /\
  lookup_src "property num_annotators" continuum_src = Some "(self) return len(self._annotations)"%string.
Proof. repeat split. Qed.
