(* C12 - Gamma-cat and gamma-k follow their definition.  Proofs in theories/Gamma/GammaKProofs.v.
   The C12_src_* theorems at the end are re-proved on every run against genprops/GammaGen.v, the translation of GammaResults.gamma_cat / gamma_k
   (value rule and job wiring) from the CURRENT continuum.py (harness/gen_gamma.py). *)
From Coq Require Import String List Arith ZArith QArith Bool Permutation Lia.
From PGA Require Import Gamma.GammaK Gamma.GammaKProofs Gamma.GammaKSlots.
From PGAprops Require Import GammaGen.
Import ListNotations.
Local Open Scope Q_scope.

(* FULL (domain: at least one considered pair of real units, DESIGN 6): the accumulator loop returns the weighted mean of the
   categorical dissimilarity over the considered pairs, real pairs weighted 1/(k-1) * max(0, 1 - alpha*positional), unit/empty pairs
   counting delta_empty at weight delta_empty *)
Theorem C12_loop_is_weighted_mean alpha de cat al :
  has_real (contribs alpha de cat al) = true -> ~ wsum (terms (contribs alpha de cat al)) == 0 ->
  gk_loop alpha de cat al == gk_spec alpha de cat al.
Proof. exact (gk_loop_eq_spec alpha de cat al). Qed.
Theorem C12_loop_zero_sum alpha de cat al :
  has_real (contribs alpha de cat al) = true -> wsum (terms (contribs alpha de cat al)) == 0 ->
  gk_loop alpha de cat al == 0.
Proof. exact (gk_loop_zero alpha de cat al). Qed.
(* outside that domain the code returns a convention, characterised exactly *)
Theorem C12_degenerate_values alpha de cat al :
  has_real (contribs alpha de cat al) = false ->
  gk_loop alpha de cat al =
    if forallb (fun c => match c with Skip => true | _ => false end) (contribs alpha de cat al) then 1 else 0.
Proof. exact (gk_degenerate alpha de cat al). Qed.

Theorem C12_disorder_nonneg alpha de cat al : 0 <= de -> vals_nonneg al -> 0 <= gk_loop alpha de cat al.
Proof. exact (gk_loop_nonneg alpha de cat al). Qed.
(* gamma-cat / gamma-k never exceed 1 *)
Theorem C12_gamma_k_le_1 obs chance : 0 <= obs -> 0 < qmean chance -> gamma_of obs chance <= 1.
Proof. exact (gamma_of_le_1 obs chance). Qed.
Theorem C12_gamma_cat_le_1 obs chance : 0 <= obs -> 0 <= qmean chance -> gamma_cat_of obs chance <= 1.
Proof. exact (gamma_cat_of_le_1 obs chance). Qed.
(* ... and equal 1 when co-aligned units never differ in category and no unit is left unaligned *)
Theorem C12_zero_when_agreeing alpha de cat al : no_empty al -> cat_agree al ->
  has_real (contribs alpha de cat al) = true -> gk_loop alpha de cat al == 0.
Proof. exact (gk_zero_when_agreeing alpha de cat al). Qed.
Theorem C12_gamma_one_when_observed_zero chance : gamma_of 0 chance == 1 /\ gamma_cat_of 0 chance == 1.
Proof. split; [exact (gamma_of_zero_obs chance) | exact (gamma_cat_of_zero_obs chance)]. Qed.
(* order of unitary alignments is irrelevant *)
Theorem C12_order_independent alpha de cat al al' : Permutation al al' -> gk_loop alpha de cat al == gk_loop alpha de cat al'.
Proof. exact (gk_loop_perm alpha de cat al al'). Qed.

(* ... and so is the order in which the annotators' slots are listed inside each unitary alignment (pair values symmetric) *)
Theorem C12_slot_order_independent alpha de cat (l : list (list nat * list (option Z) * (nat -> nat -> Q * Q))) :
  (forall s slots pv, In (s, slots, pv) l -> Permutation s (seq 0 (length slots)) /\ forall i j, pv i j = pv j i) ->
  gk_loop alpha de cat (map (fun x => perm_ua (fst (fst x)) (snd (fst x)) (snd x)) l) ==
  gk_loop alpha de cat (map (fun x => ua_fun (snd (fst x)) (snd x)) l).
Proof. exact (gk_loop_slot_perm alpha de cat l). Qed.

(* non-vacuity: three annotators, one tuple with 3 real units (weights 1/2) and one with an empty slot *)
Example C12_example :
  let al := [mkUA [Some 1; Some 2; Some 1]%Z [(0, 1); (1 # 2, 0); (0, 1)]; mkUA [Some 1; None; Some 1]%Z [(0, 0); (0, 0); (0, 0)]] in
  has_real (contribs 1 1 None al) = true /\ gk_loop 1 1 None al == 12 # 17 /\ gk_loop 1 1 (Some 2%Z) al == 1 /\
  has_real (contribs 1 1 (Some 7%Z) al) = false /\ gk_loop 1 1 (Some 7%Z) al == 1.
Proof. vm_compute. repeat split; reflexivity. Qed.

(* ---------------------------------------------------------------------------------------------------------------------------------
   Tie to the source: the bodies of GammaResults.gamma_k / gamma_cat ARE gamma_of / gamma_cat_of of the observed job's result and the chance
   jobs' results, and both submit _compute_gamma_k_job on the best alignment and on every chance alignment, with the category (gamma-k) or None
   (gamma-cat). *)
Theorem C12_src_gamma_k obs chance : gamma_k_src chance obs == gamma_of obs chance.
Proof. unfold gamma_k_src, gamma_of. cbv zeta. destruct (Qeq_bool obs 0); reflexivity. Qed.
Theorem C12_src_gamma_cat obs chance : gamma_cat_src chance obs == gamma_cat_of obs chance.
Proof. unfold gamma_cat_src, gamma_cat_of. cbv zeta. destruct (Qeq_bool obs 0); [reflexivity|]. destruct (Qeq_bool (qmean chance) 0); reflexivity. Qed.
Theorem C12_src_jobs :
  gamma_cat_jobs = [("observed_disorder_job", "p.submit(_compute_gamma_k_job, *(self.dissimilarity, self.best_alignment, None))");
                    ("chance_disorders_jobs", "[p.submit(_compute_gamma_k_job, *(self.dissimilarity, alignment, None)) for alignment in self.chance_alignments]")]%string /\
  gamma_k_jobs = [("observed_disorder_job", "p.submit(_compute_gamma_k_job, *(self.dissimilarity, self.best_alignment, category))");
                  ("chance_disorders_jobs", "[p.submit(_compute_gamma_k_job, *(self.dissimilarity, alignment, category)) for alignment in self.chance_alignments]")]%string.
Proof. split; reflexivity. Qed.

(* the accumulator loop of Alignment.gamma_k_disorder, translated statement by statement (gk_body_src: one turn of the pair loop as a state
   transformer; weight_base_src; gk_final_src), IS the model's loop: per turn, per unitary alignment, and assembled over a whole alignment.
   A unit is None (the empty unit) or Some of its annotation; the model's slots are lifted accordingly (units are labelled here). *)
Definition lift_slot (s : option Z) : option (option Z) := match s with None => None | Some c => Some (Some c) end.

Theorem C12_src_body alpha de cat wb s1 s2 pv st :
  gk_body_src alpha (snd pv) cat de (fst pv) wb (lift_slot s1) (lift_slot s2) st = gk_step st (contrib_of alpha de cat wb (s1, s2) pv).
Proof.
  destruct st as [[[td tw] nc] nl]. unfold gk_body_src, contrib_of, gk_step, lift_slot, is_cat, cat_eqb_opt.
  destruct cat as [k|]; destruct s1 as [c1|]; destruct s2 as [c2|]; cbn;
    try destruct (c1 =? k)%Z; try destruct (c2 =? k)%Z; reflexivity.
Qed.

Theorem C12_src_weight_base u : weight_base_src (inject_Z (Z.of_nat (nb_units u))) = weight_base u.
Proof.
  unfold weight_base_src, weight_base. set (n := nb_units u).
  destruct (Nat.ltb_spec n 2) as [H|H].
  - assert (E : Qle_bool 2 (inject_Z (Z.of_nat n)) = false).
    { destruct (Qle_bool 2 (inject_Z (Z.of_nat n))) eqn:E; [|reflexivity]. apply Qle_bool_iff in E.
      change 2 with (inject_Z 2) in E. rewrite <- Zle_Qle in E. lia. }
    rewrite E. reflexivity.
  - assert (E : Qle_bool 2 (inject_Z (Z.of_nat n)) = true).
    { apply Qle_bool_iff. change 2 with (inject_Z 2). rewrite <- Zle_Qle. lia. }
    rewrite E. reflexivity.
Qed.

(* the whole loop, assembled from the translated pieces in the shape the source has *)
Definition items (al : list ua) : list (Q * (option Z * option Z) * (Q * Q)) :=
  flat_map (fun u => map (fun x => (weight_base_src (inject_Z (Z.of_nat (nb_units u))), fst x, snd x)) (combine (pairs_of (slots u)) (pvals u))) al.
Definition gk_loop_src (alpha de : Q) (cat : option Z) (al : list ua) : Q :=
  gk_final_src (fold_left (fun st x => let '(wb, sp, pv) := x in
                                       gk_body_src alpha (snd pv) cat de (fst pv) wb (lift_slot (fst sp)) (lift_slot (snd sp)) st)
                          (items al) (0, 0, true, true)).

Lemma fold_left_map_ext {A B S} (f : S -> B -> S) (g : S -> A -> S) (h : A -> B) l s :
  (forall st x, g st x = f st (h x)) -> fold_left g l s = fold_left f (map h l) s.
Proof. intros H. revert s. induction l as [|x l IH]; intros s; [reflexivity|]. cbn. rewrite H. apply IH. Qed.

Lemma contribs_items alpha de cat al :
  contribs alpha de cat al = map (fun x => let '(wb, sp, pv) := x in contrib_of alpha de cat wb sp pv) (items al).
Proof.
  unfold contribs, items. induction al as [|u al IH]; [reflexivity|]. cbn [flat_map]. rewrite map_app, <- IH. f_equal.
  rewrite map_map. apply map_ext. intros [sp pv]. cbn. rewrite C12_src_weight_base. reflexivity.
Qed.

Theorem C12_src_loop alpha de cat al : gk_loop_src alpha de cat al = gk_loop alpha de cat al.
Proof.
  unfold gk_loop_src, gk_loop. rewrite contribs_items.
  rewrite (fold_left_map_ext gk_step _ (fun x => let '(wb, sp, pv) := x in contrib_of alpha de cat wb sp pv)).
  - unfold gk_final_src. destruct (fold_left _ _ _) as [[[td tw] nc] nl]. reflexivity.
  - intros st [[wb [s1 s2]] pv]. cbn [fst snd]. apply C12_src_body.
Qed.

Theorem C12_src_loops : gk_loops_src = ["for (i, (_, unit1)) in enumerate(unitary_alignment.n_tuple)"; "for (_, unit2) in unitary_alignment.n_tuple[i + 1:]"]%string.
Proof. reflexivity. Qed.

(* nv is recomputed from the current tuple at every query (no memo), and the tuple is what the setter last stored: the number of real units
   the weights use is that of the unitary alignment AS IT IS when gamma_k_disorder runs *)
Theorem C12_src_unitary_alignment :
  unitary_alignment_src =
  [("nb_units property", "return sum((1 for _ in filter(lambda annot_unit: annot_unit[1] is not None, self._n_tuple)))");
   ("n_tuple property", "return self._n_tuple");
   ("n_tuple n_tuple.setter", "self._n_tuple = n_tuple; self._disorder = None");
   ("__init__", "assert len(n_tuple) >= 2; self._n_tuple: UnitsTuple = n_tuple; self._disorder: Optional[float] = None")]%string.
Proof. reflexivity. Qed.
