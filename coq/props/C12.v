(* C12 - Gamma-cat and gamma-k follow their definition.  Proofs in theories/Gamma/GammaKProofs.v. *)
From Coq Require Import List Arith ZArith QArith Bool Permutation.
From PGA Require Import Gamma.GammaK Gamma.GammaKProofs Gamma.GammaKSlots.
Import ListNotations.
Local Open Scope Q_scope.

(* FULL (domain: at least one considered pair of real units, DESIGN 6): the accumulator loop returns the weighted mean of the
   categorical dissimilarity over the considered pairs, real pairs weighted 1/(k-1) * max(0, 1 - alpha*positional), unit/empty pairs
   counting delta_empty at weight delta_empty *)
Theorem C12_loop_is_weighted_mean alpha de cat al :
  has_real (contribs alpha de cat al) = true -> ~ wsum (terms (contribs alpha de cat al)) == 0 ->
  gk_loop alpha de cat al == gk_spec alpha de cat al.
Proof. exact (gk_loop_eq_spec alpha de cat al). Qed.
Theorem C12_loop_zero_sum alpha de cat al :
  has_real (contribs alpha de cat al) = true -> wsum (terms (contribs alpha de cat al)) == 0 ->
  gk_loop alpha de cat al == 0.
Proof. exact (gk_loop_zero alpha de cat al). Qed.
(* outside that domain the code returns a convention, characterised exactly *)
Theorem C12_degenerate_values alpha de cat al :
  has_real (contribs alpha de cat al) = false ->
  gk_loop alpha de cat al =
    if forallb (fun c => match c with Skip => true | _ => false end) (contribs alpha de cat al) then 1 else 0.
Proof. exact (gk_degenerate alpha de cat al). Qed.

Theorem C12_disorder_nonneg alpha de cat al : 0 <= de -> vals_nonneg al -> 0 <= gk_loop alpha de cat al.
Proof. exact (gk_loop_nonneg alpha de cat al). Qed.
(* gamma-cat / gamma-k never exceed 1 *)
Theorem C12_gamma_k_le_1 obs chance : 0 <= obs -> 0 < qmean chance -> gamma_of obs chance <= 1.
Proof. exact (gamma_of_le_1 obs chance). Qed.
Theorem C12_gamma_cat_le_1 obs chance : 0 <= obs -> 0 <= qmean chance -> gamma_cat_of obs chance <= 1.
Proof. exact (gamma_cat_of_le_1 obs chance). Qed.
(* ... and equal 1 when co-aligned units never differ in category and no unit is left unaligned *)
Theorem C12_zero_when_agreeing alpha de cat al : no_empty al -> cat_agree al ->
  has_real (contribs alpha de cat al) = true -> gk_loop alpha de cat al == 0.
Proof. exact (gk_zero_when_agreeing alpha de cat al). Qed.
Theorem C12_gamma_one_when_observed_zero chance : gamma_of 0 chance == 1 /\ gamma_cat_of 0 chance == 1.
Proof. split; [exact (gamma_of_zero_obs chance) | exact (gamma_cat_of_zero_obs chance)]. Qed.
(* order of unitary alignments is irrelevant *)
Theorem C12_order_independent alpha de cat al al' : Permutation al al' -> gk_loop alpha de cat al == gk_loop alpha de cat al'.
Proof. exact (gk_loop_perm alpha de cat al al'). Qed.

(* ... and so is the order in which the annotators' slots are listed inside each unitary alignment (pair values symmetric) *)
Theorem C12_slot_order_independent alpha de cat (l : list (list nat * list (option Z) * (nat -> nat -> Q * Q))) :
  (forall s slots pv, In (s, slots, pv) l -> Permutation s (seq 0 (length slots)) /\ forall i j, pv i j = pv j i) ->
  gk_loop alpha de cat (map (fun x => perm_ua (fst (fst x)) (snd (fst x)) (snd x)) l) ==
  gk_loop alpha de cat (map (fun x => ua_fun (snd (fst x)) (snd x)) l).
Proof. exact (gk_loop_slot_perm alpha de cat l). Qed.

(* non-vacuity: three annotators, one tuple with 3 real units (weights 1/2) and one with an empty slot *)
Example C12_example :
  let al := [mkUA [Some 1; Some 2; Some 1]%Z [(0, 1); (1 # 2, 0); (0, 1)]; mkUA [Some 1; None; Some 1]%Z [(0, 0); (0, 0); (0, 0)]] in
  has_real (contribs 1 1 None al) = true /\ gk_loop 1 1 None al == 12 # 17 /\ gk_loop 1 1 (Some 2%Z) al == 1 /\
  has_real (contribs 1 1 (Some 7%Z) al) = false /\ gk_loop 1 1 (Some 7%Z) al == 1.
Proof. vm_compute. repeat split; reflexivity. Qed.
