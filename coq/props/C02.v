(* C02 - The best alignment has minimal disorder among all alignments; pruning never changes the minimum.
   Costs are the integer-scaled pair-cost sums; the alignment disorder is al_sum / (C(n,2) * mean units per annotator),
   a positive constant factor of it (C02_normalisation_monotone). *)
From Coq Require Import String List Arith ZArith QArith Bool Lia.
From PGA Require Import Align.Tuples Align.Cover Align.Inst Align.CoverProofs Align.PartProofs Align.CandProofs Align.OptProofs.
From PGAprops Require Import IlpGen KernelGen.
Import ListNotations.
Local Close Scope Q_scope.

(* the verified search returns a partition made of the offered candidates with the reported cost ... *)
Theorem C02_search_sound I cs v l :
  Forall (wf_tuple (sz I)) cs -> opt_partition I cs = Some (v, l) ->
  exists al, incl al cs /\ partition (sz I) al /\ l = map (cand_of I) al /\ v = al_sum I al.
Proof. exact (opt_partition_sound I cs v l). Qed.
(* ... and no partition made of them is cheaper *)
Theorem C02_search_optimal I cs al :
  Forall (wf_tuple (sz I)) cs -> partition (sz I) al -> incl al cs ->
  exists v l, opt_partition I cs = Some (v, l) /\ (v <= al_sum I al)%Z.
Proof. exact (opt_partition_optimal I cs al). Qed.

(* PRUNING: every partition can be replaced by one made of candidates under the cut that costs no more
   (no sign condition on the pair dissimilarities, only delta_empty >= 0) *)
Theorem C02_pruning_sound I al : (0 <= de I)%Z -> partition (sz I) al ->
  exists al', partition (sz I) al' /\ incl al' (candidates I) /\ (al_sum I al' <= al_sum I al)%Z.
Proof. exact (pruning_sound I al). Qed.
Theorem C02_pruned_optimum_eq_full_optimum I v l v' l' : (0 <= de I)%Z ->
  opt_partition I (candidates I) = Some (v, l) -> opt_partition I (real_tuples I) = Some (v', l') -> v = v'.
Proof. exact (opt_pruned_eq_opt_all I v l v' l'). Qed.

(* FULL STATEMENT as used per case: when the verified budgeted search finds nothing strictly below b among the pruned
   candidates, EVERY partition of the continuum's units costs at least b.  The harness takes b = (exact cost of the
   returned alignment) - rounding tolerance; together with C01's judge this says the returned alignment is minimal. *)
Theorem C02_best_is_minimal I b : (0 <= de I)%Z ->
  no_better true I (candidates I) b = true ->
  forall al, partition (sz I) al -> (b <= al_sum I al)%Z.
Proof. exact (C02_certificate I b). Qed.

(* normalisation: dividing by scale * C(n,2) * (units / n) is monotone, so argmin and order of disorders are those of the sums *)
Lemma C02_normalisation_monotone (s1 s2 : Z) (k : positive) : (s1 <= s2)%Z -> (Qmake s1 k <= Qmake s2 k)%Q.
Proof. intros H. unfold Qle. simpl. apply Z.mul_le_mono_nonneg_r; [apply Pos2Z.is_nonneg | exact H]. Qed.

(* non-vacuity: 2 annotators x 2 units; the optimum pairs (0,0) and (1,1) *)
Definition ex2 : inst := mkInst [2; 2] [[]; [[[1%Z; 9%Z]; [9%Z; 2%Z]]]] 4%Z.
Example C02_example :
  (exists l, opt_partition ex2 (candidates ex2) = Some (3%Z, l)) /\
  no_better true ex2 (candidates ex2) 3 = true /\ no_better true ex2 (candidates ex2) 4 = false /\ (0 <= de ex2)%Z.
Proof. split; [eexists; vm_compute; reflexivity|]. split; [vm_compute; reflexivity|]. split; [vm_compute; reflexivity|]. vm_compute; discriminate. Qed.

(* ---------------------------------------------------------------------------------------------------------------------------------
   Tie to the source (re-proved on every run against genprops/KernelGen.v and IlpGen.v): the pruning theorem is about the cut and keep test
   the source computes - a tuple is kept by the code exactly when it passes the model's cut, so C02_pruning_sound / C02_best_is_minimal speak
   of the candidates the code offers - and the program minimises disorders . x over 0/1 vectors with A x = 1 (rows 3, 4 and 6 of the table). *)
Lemma C02_c2n_src n : c2n_src (Z.of_nat n) = Z.of_nat (c2n n).
Proof.
  unfold c2n_src, c2n. rewrite Nat2Z.inj_div, Nat2Z.inj_mul. destruct n as [|n]; [reflexivity|].
  rewrite Nat2Z.inj_sub by lia. reflexivity.
Qed.
Theorem C02_src_kept_iff_passes I t : keep_src (criterium_src (de I) (Z.of_nat (nann I))) (ua_sum I t) = passes I t.
Proof.
  pose proof (C02_c2n_src (nann I)) as E. unfold c2n_src in E.
  unfold criterium_src, keep_src, passes, cut. cbv zeta. rewrite ?E; first [reflexivity | (f_equal; ring)].
Qed.
(* the number compared with the cut is the plain sum over the annotator pairs (nothing else enters it, no pair is special), and a tuple that
   passes is recorded unconditionally - so the candidates handed to the optimiser are exactly those the pruning theorems speak of *)
Theorem C02_src_pruned_sum_is_pair_sum :
  firstn 2 valid_alignments_shape =
  [("pair_loop", expected_pair_loop);
   ("record", "disorders[i_chosen] = disorder; alignments[i_chosen] = unitary_alignment; i_chosen += 1")]%string.
Proof. reflexivity. Qed.
Theorem C02_src_objective :
  map snd (firstn 2 (skipn 3 best_ilp_src)) =
  ["cp.Variable(shape=(n,), boolean=True)"; "import cylp; cp.Problem(cp.Minimize(disorders.T @ x), [A @ x == 1]).solve(solver=cp.CBC)"]%string /\
  map snd (firstn 1 (skipn 6 best_ilp_src)) =
  ["matmul = A @ x; cp.Problem(cp.Minimize(disorders.T @ x), [1 <= matmul, matmul <= 1]).solve(solver=cp.GLPK_MI)"]%string.
Proof. split; reflexivity. Qed.
