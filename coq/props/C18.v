(* C18 - File import and export are faithful.  Proofs in theories/Io/CsvProofs.v and theories/Io/Tiers.v.
   (partial: the textgrid / pympi / RTTM parsers and float printing are oracles; what is proved is the CSV layer - Python's csv module in the excel
   dialect, modelled character by character and compared with it on every run - and the mapping from parsed tiers / rows to units.) *)
From Coq Require Import String List Arith ZArith QArith Bool.
From PGA Require Import Io.Csv Io.CsvProofs Io.Tiers.
From PGAprops Require Import ShapesGen.
Import ListNotations.
Local Close Scope Q_scope.

(* FULL (CSV layer): for every delimiter other than the quote, CR and LF, and ALL field texts (delimiters, quotes, spaces, line breaks, any code
   point), reading what was written yields the rows back (rows of at least two fields: the library writes four) *)
Theorem C18_csv_roundtrip d rows : delim_ok d -> Forall (fun fs => (2 <= length fs)%nat) rows ->
  read d (wfile d rows) = rows.
Proof. exact (csv_roundtrip d rows). Qed.
(* REFUTED for the original code, which opened the files with newline translation (repaired by a fix commit): a field containing a carriage
   return does not survive; fields without CR do *)
Theorem C18_original_text_mode_breaks_cr :
  exists d rows, delim_ok d /\ Forall (fun fs => (2 <= length fs)%nat) rows /\ read d (translate_in (wfile d rows)) <> rows.
Proof. exact csv_roundtrip_text_refuted. Qed.
Theorem C18_original_text_mode_ok_without_cr d rows : delim_ok d -> Forall (fun fs => (2 <= length fs)%nat) rows ->
  Forall (Forall (fun f => ~ In CR f)) rows -> read d (translate_in (wfile d rows)) = rows.
Proof. exact (csv_roundtrip_text_nocr d rows). Qed.

(* zero-length rows: discarded when asked, otherwise the load is rejected exactly when such a row exists *)
Theorem C18_zero_length_rows_discarded prec rows : exists l, csv_rows prec true rows = Loaded l /\
  l = filter (fun r => negb (Qle_bool (snd r - snd (fst r))%Q prec)) rows.
Proof. exact (csv_rows_discard prec rows). Qed.
Theorem C18_zero_length_rows_rejected prec rows : csv_rows prec false rows = Rejected <->
  exists r, In r rows /\ Qle_bool (snd r - snd (fst r))%Q prec = true.
Proof. exact (csv_rows_reject prec rows). Qed.

(* tier importers: exactly one unit per non-empty interval (TextGrid) / per annotation (ELAN) of the selected tiers, with the file's times and
   the interval's label or the tier name as requested *)
Theorem C18_textgrid_units tiers sel use_tier a :
  In a (textgrid_adds tiers sel use_tier) <->
  exists t iv, In t tiers /\ selected sel (tname t) = true /\ In iv (ivs t) /\ mark iv <> [] /\
               a = (imin iv, imax iv, label_of use_tier t iv).
Proof. exact (textgrid_adds_spec tiers sel use_tier a). Qed.
Theorem C18_textgrid_count tiers sel use_tier : length (textgrid_adds tiers sel use_tier) = count_textgrid tiers sel.
Proof. exact (textgrid_count tiers sel use_tier). Qed.
Theorem C18_elan_units tiers sel use_tier a :
  In a (elan_adds tiers sel use_tier) <->
  exists t iv, In t tiers /\ selected sel (tname t) = true /\ In iv (ivs t) /\ a = (imin iv, imax iv, label_of use_tier t iv).
Proof. exact (elan_adds_spec tiers sel use_tier a). Qed.
Theorem C18_elan_count tiers sel use_tier : length (elan_adds tiers sel use_tier) = count_elan tiers sel.
Proof. exact (elan_count tiers sel use_tier). Qed.

Example C18_example :
  read 44 (wfile 44 [[[34; 97]; []; [44; 10]; [13]]; [[120]; [121]]]) = [[[34; 97]; []; [44; 10]; [13]]; [[120]; [121]]].
Proof. exact csv_example. Qed.

(* ---------------------------------------------------------------------------------------------------------------------------------
   Tie to the source (re-proved on every run against genprops/ShapesGen.v, read from the CURRENT sources by harness/gen_shapes.py): the bodies
   below, as normalised text, are the ones the model follows statement by statement. *)
Fixpoint lookup_src (k : string) (l : list (string * string)) : option string :=
  match l with [] => None | (a, b) :: r => if String.eqb k a then Some b else lookup_src k r end.
(* column order annotator, label, start, end in both directions; newline='' in both; zero-length rows discarded or re-raised as requested; one add per RTTM annotation; TextGrid: empty marks skipped, tier filter, tier name or mark as label; ELAN: tier filter, tier name or value as label *)
Theorem C18_src_readers_and_writer :
  lookup_src "classmethod from_csv" continuum_src = Some "(cls, path, discard_invalid_rows=True, delimiter=',') if isinstance(path, str): [path = Path(path)]; continuum = cls(); with open(path, newline='') as csv_file: [reader = csv.reader(csv_file, delimiter=delimiter); for row in reader: [seg = Segment(float(row[2]), float(row[3])); try: [continuum.add(row[0], seg, row[1])] except ValueError: [if discard_invalid_rows: [] else: [raise e]]]]; return continuum"%string /\
  lookup_src "to_csv" continuum_src = Some "(self, path, delimiter=',') if isinstance(path, str): [path = Path(path)]; with open(path, 'w', newline='') as csv_file: [writer = csv.writer(csv_file, delimiter=delimiter); for (annotator, unit) in self: [writer.writerow([annotator, unit.annotation, unit.segment.start, unit.segment.end])]]"%string /\
  lookup_src "classmethod from_rttm" continuum_src = Some "(cls, path) annotations = load_rttm(str(path)); continuum = cls(); for (uri, annot) in annotations.items(): [continuum.add_annotation(uri, annot)]; return continuum"%string /\
  lookup_src "add_textgrid" continuum_src = Some "(self, annotator, tg_path, selected_tiers=None, use_tier_as_annotation=False) from textgrid import TextGrid, IntervalTier; tg = TextGrid.fromFile(str(tg_path)); for tier_name in tg.getNames(): [if selected_tiers is not None and tier_name not in selected_tiers: [continue]; tier: IntervalTier = tg.getFirst(tier_name); for interval in tier: [if not interval.mark: [continue]; if use_tier_as_annotation: [self.add(annotator, Segment(interval.minTime, interval.maxTime), tier_name)] else: [self.add(annotator, Segment(interval.minTime, interval.maxTime), interval.mark)]]]"%string /\
  lookup_src "add_elan" continuum_src = Some "(self, annotator, eaf_path, selected_tiers=None, use_tier_as_annotation=False) from pympi import Eaf; eaf = Eaf(eaf_path); for tier_name in eaf.get_tier_names(): [if selected_tiers is not None and tier_name not in selected_tiers: [continue]; for (start, end, value) in eaf.get_annotation_data_for_tier(tier_name): [if use_tier_as_annotation: [self.add(annotator, Segment(start, end), tier_name)] else: [self.add(annotator, Segment(start, end), value)]]]"%string /\
  lookup_src "add_annotation" continuum_src = Some "(self, annotator, annotation) for (segment, _, label) in annotation.itertracks(yield_label=True): [self.add(annotator, segment, label)]"%string.
Proof. repeat split. Qed.
