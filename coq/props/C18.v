(* C18 - File import and export are faithful.  Proofs in theories/Io/CsvProofs.v and theories/Io/Tiers.v.
   (partial: the textgrid / pympi / RTTM parsers and float printing are oracles; what is proved is the CSV layer - Python's csv module in the excel
   dialect, modelled character by character and compared with it on every run - and the mapping from parsed tiers / rows to units.) *)
From Coq Require Import List Arith ZArith QArith Bool.
From PGA Require Import Io.Csv Io.CsvProofs Io.Tiers.
Import ListNotations.
Local Close Scope Q_scope.

(* FULL (CSV layer): for every delimiter other than the quote, CR and LF, and ALL field texts (delimiters, quotes, spaces, line breaks, any code
   point), reading what was written yields the rows back (rows of at least two fields: the library writes four) *)
Theorem C18_csv_roundtrip d rows : delim_ok d -> Forall (fun fs => (2 <= length fs)%nat) rows ->
  read d (wfile d rows) = rows.
Proof. exact (csv_roundtrip d rows). Qed.
(* REFUTED for the original code, which opened the files with newline translation (repaired by a fix commit): a field containing a carriage
   return does not survive; fields without CR do *)
Theorem C18_original_text_mode_breaks_cr :
  exists d rows, delim_ok d /\ Forall (fun fs => (2 <= length fs)%nat) rows /\ read d (translate_in (wfile d rows)) <> rows.
Proof. exact csv_roundtrip_text_refuted. Qed.
Theorem C18_original_text_mode_ok_without_cr d rows : delim_ok d -> Forall (fun fs => (2 <= length fs)%nat) rows ->
  Forall (Forall (fun f => ~ In CR f)) rows -> read d (translate_in (wfile d rows)) = rows.
Proof. exact (csv_roundtrip_text_nocr d rows). Qed.

(* zero-length rows: discarded when asked, otherwise the load is rejected exactly when such a row exists *)
Theorem C18_zero_length_rows_discarded prec rows : exists l, csv_rows prec true rows = Loaded l /\
  l = filter (fun r => negb (Qle_bool (snd r - snd (fst r))%Q prec)) rows.
Proof. exact (csv_rows_discard prec rows). Qed.
Theorem C18_zero_length_rows_rejected prec rows : csv_rows prec false rows = Rejected <->
  exists r, In r rows /\ Qle_bool (snd r - snd (fst r))%Q prec = true.
Proof. exact (csv_rows_reject prec rows). Qed.

(* tier importers: exactly one unit per non-empty interval (TextGrid) / per annotation (ELAN) of the selected tiers, with the file's times and
   the interval's label or the tier name as requested *)
Theorem C18_textgrid_units tiers sel use_tier a :
  In a (textgrid_adds tiers sel use_tier) <->
  exists t iv, In t tiers /\ selected sel (tname t) = true /\ In iv (ivs t) /\ mark iv <> [] /\
               a = (imin iv, imax iv, label_of use_tier t iv).
Proof. exact (textgrid_adds_spec tiers sel use_tier a). Qed.
Theorem C18_textgrid_count tiers sel use_tier : length (textgrid_adds tiers sel use_tier) = count_textgrid tiers sel.
Proof. exact (textgrid_count tiers sel use_tier). Qed.
Theorem C18_elan_units tiers sel use_tier a :
  In a (elan_adds tiers sel use_tier) <->
  exists t iv, In t tiers /\ selected sel (tname t) = true /\ In iv (ivs t) /\ a = (imin iv, imax iv, label_of use_tier t iv).
Proof. exact (elan_adds_spec tiers sel use_tier a). Qed.
Theorem C18_elan_count tiers sel use_tier : length (elan_adds tiers sel use_tier) = count_elan tiers sel.
Proof. exact (elan_count tiers sel use_tier). Qed.

Example C18_example :
  read 44 (wfile 44 [[[34; 97]; []; [44; 10]; [13]]; [[120]; [121]]]) = [[[34; 97]; []; [44; 10]; [13]]; [[120]; [121]]].
Proof. exact csv_example. Qed.
