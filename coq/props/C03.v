(* C03 - Disorder values follow the definition.  Proofs in theories/Align/DisorderProofs.v.
   The C03_src_* theorems at the end are re-proved on every run against genprops/KernelGen.v, the translation of the pair rule, the divisor and
   the loop shape of _compute_alignment_disorders from the CURRENT dissimilarity.py (harness/gen_kernel.py). *)
From Coq Require Import String List Arith ZArith QArith Bool Permutation Lia.
From PGA Require Import Align.Tuples Align.Cover Align.Inst Align.Invar Align.InvarProofs Align.Disorder Align.DisorderProofs.
From PGAprops Require Import KernelGen.
Import ListNotations.
Local Close Scope Q_scope.

(* the disorder of a unitary alignment is the sum over the C(n,2) unordered annotator pairs of the pair cost (delta_empty whenever either
   slot is empty), divided by C(n,2): the double loop IS this definition *)
Theorem C03_unitary_sum_is_pair_sum I t : ua_sum I t = pair_sum (nann I) (fun a b => pair_cost I a b t).
Proof. exact (ua_sum_is_pair_sum I t). Qed.
Theorem C03_number_of_pairs n : length (pairs n) = c2n n.
Proof. exact (pairs_count n). Qed.

(* none depends on the order in which annotators are listed inside a unitary alignment: slots are placed by annotator rank *)
Theorem C03_slot_order_irrelevant sizes nt nt' : NoDup (map fst nt) -> Permutation nt nt' ->
  row_of_ntuple sizes nt = row_of_ntuple sizes nt'.
Proof. exact (row_of_ntuple_perm sizes nt nt'). Qed.
Theorem C03_slot_placement sizes nt a : NoDup (map fst nt) -> a < length sizes ->
  nth a (row_of_ntuple sizes nt) 0 =
  match find (fun au => fst au =? a) nt with Some au => slot_value sizes au | None => nth a sizes 0 end.
Proof. exact (row_of_ntuple_spec sizes nt a). Qed.
(* ... nor, for a symmetric dissimilarity, on how the annotators themselves are ordered *)
Theorem C03_annotator_order_irrelevant n (c : nat -> nat -> Z) (s : list nat) :
  (forall a b, c a b = c b a) -> is_perm n s -> pair_sum n (fun a b => c (app_perm s a) (app_perm s b)) = pair_sum n c.
Proof. exact (pair_sum_perm n c s). Qed.

(* the alignment disorder cached by best / soft / fast alignment (sum of the selected unitary disorders / mean units per annotator)
   equals the value recomputed from the units *)
Theorem C03_cached_eq_recomputed scale I al units :
  (disorder_q scale I al units == disorder_of_sum scale I (al_sum I al) units)%Q.
Proof. exact (cached_eq_recomputed scale I al units). Qed.

(* REFUTED on the faithful model of the unchanged code (recorded as a known finding, pinned by tests/test_alignement.py::test_unitary_alignment):
   UnitaryAlignment.compute_disorder returns the definition x n/k for a tuple with k < n real units.
   Witness: 3 annotators, one real pair of cost 3, delta_empty 10 (scaled): definition 23/3, returned 23/2. *)
Definition ex_c03 : inst := mkInst [1; 1; 1] [[]; [[[3%Z]]]; [[[0%Z]]; [[0%Z]]]] 10%Z.
Theorem C03_unitary_compute_refuted :
  exists I t, ~ (ua_compute_faithful 1 I t == ua_disorder_q 1 I t)%Q.
Proof. exists ex_c03, [0; 0; 1]%nat. vm_compute. discriminate. Qed.
Example C03_example :
  (ua_disorder_q 1 ex_c03 [0; 0; 1]%nat == 23 # 3)%Q /\ (ua_compute_faithful 1 ex_c03 [0; 0; 1]%nat == 23 # 2)%Q /\
  row_of_ntuple [1; 1; 1]%nat [(2, None); (0, Some 0); (1, Some 0)]%nat = [0; 0; 1]%nat.
Proof. vm_compute. repeat split; reflexivity. Qed.

(* ---------------------------------------------------------------------------------------------------------------------------------
   Tie to the source (obligations a change of dissimilarity.py can break). *)
(* the divisor of _compute_alignment_disorders IS C(n,2) *)
Theorem C03_src_c2n n : c2n_disorders_src (Z.of_nat n) = Z.of_nat (c2n n).
Proof.
  unfold c2n_disorders_src, c2n. rewrite Nat2Z.inj_div, Nat2Z.inj_mul. destruct n as [|n]; [reflexivity|].
  rewrite Nat2Z.inj_sub by lia. reflexivity.
Qed.
(* what a pair of slots adds - delta_empty when either category cell is -1 (the empty slot's row), the kernel value otherwise - IS pair_cost *)
Theorem C03_src_pair_value I a b t ci cj :
  (ci = (-1)%Z <-> nth a t 0 = size I a) -> (cj = (-1)%Z <-> nth b t 0 = size I b) ->
  pair_value_src ci cj (dget I a b (nth a t 0) (nth b t 0)) (de I) = pair_cost I a b t.
Proof.
  intros Hi Hj. unfold pair_value_src, pair_cost. cbv zeta.
  destruct (Z.eqb_spec ci (-1)) as [E1|E1]; destruct (Nat.eqb_spec (nth a t 0) (size I a)) as [F1|F1];
    try (exfalso; tauto); cbn [orb]; try reflexivity;
  destruct (Z.eqb_spec cj (-1)) as [E2|E2]; destruct (Nat.eqb_spec (nth b t 0) (size I b)) as [F2|F2];
    try (exfalso; tauto); reflexivity.
Qed.
(* the pairs are j < i < n (pairs n), the result is divided by c2n *)
Theorem C03_src_shape :
  alignment_disorders_shape = [("pair_loop", "for i in range(nb_annotators): for j in range(i)"); ("after", "res /= c2n; return res")]%string.
Proof. reflexivity. Qed.
