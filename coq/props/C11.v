(* C11 - The soft alignment is a minimum-disorder cover. *)
From Coq Require Import String List Arith ZArith.
From PGA Require Import Align.Tuples Align.Cover Align.Inst Align.CoverProofs Align.PartProofs Align.CandProofs Align.OptProofs.
From PGAprops Require Import IlpGen.
Import ListNotations.

(* the constraint A x >= 1 is exactly cover-hood of the decoded selection, made of well-formed candidates *)
Theorem C11_constraint_iff_cover I cs x : length x = length cs -> Forall (wf_tuple (sz I)) cs ->
  (Age1 I cs x <-> cover (sz I) (sel cs x)).
Proof. exact (Age1_iff_cover I cs x). Qed.
Theorem C11_judge_reflects s al : is_coverb s al = true <-> cover s al.
Proof. exact (is_coverb_spec s al). Qed.

(* verified minimum cover over a candidate list with non-negative costs *)
Theorem C11_search_sound I cs v l :
  Forall (wf_tuple (sz I)) cs -> opt_cover I cs = Some (v, l) ->
  exists al, incl al cs /\ cover (sz I) al /\ l = map (cand_of I) al /\ v = al_sum I al.
Proof. exact (opt_cover_sound I cs v l). Qed.
Theorem C11_search_optimal I cs al :
  Forall (wf_tuple (sz I)) cs -> nonneg_costs I cs -> cover (sz I) al -> incl al cs ->
  exists v l, opt_cover I cs = Some (v, l) /\ (v <= al_sum I al)%Z.
Proof. exact (opt_cover_optimal I cs al). Qed.

(* pruning is sound for covers too *)
Theorem C11_pruning_sound I al : (0 <= de I)%Z -> cover (sz I) al ->
  exists al', cover (sz I) al' /\ incl al' (candidates I) /\ (al_sum I al' <= al_sum I al)%Z.
Proof. exact (pruning_sound_cover I al). Qed.

(* FULL STATEMENT as used per case: a certificate over the pruned candidates bounds EVERY cover of the continuum *)
Theorem C11_soft_is_minimal I b : (0 <= de I)%Z ->
  no_better false I (candidates I) b = true ->
  forall al, cover (sz I) al -> (b <= al_sum I al)%Z.
Proof. exact (C11_certificate I b). Qed.

(* consequence: every partition is a cover, hence min over covers <= min over partitions *)
Theorem C11_partition_is_cover s al : partition s al -> cover s al.
Proof. exact (partition_cover s al). Qed.
Theorem C11_soft_le_best I b : (0 <= de I)%Z -> no_better false I (candidates I) b = true ->
  forall al, partition (sz I) al -> (b <= al_sum I al)%Z.
Proof. intros H Hc al Hp. exact (C11_certificate I b H Hc al (partition_cover _ _ Hp)). Qed.

(* non-vacuity: a cover strictly cheaper than every partition (unit 0 of annotator 0 is used twice) *)
Definition ex3 : inst := mkInst [1; 2] [[]; [[[1%Z]; [1%Z]]]] 5%Z.
Example C11_example :
  (exists l, opt_cover ex3 (candidates ex3) = Some (2%Z, l)) /\ (exists l, opt_partition ex3 (candidates ex3) = Some (6%Z, l)) /\
  no_better false ex3 (candidates ex3) 2 = true /\ is_coverb [1;2] [[0;0];[0;1]] = true /\ is_partitionb [1;2] [[0;0];[0;1]] = false.
Proof. repeat split; try (eexists; vm_compute; reflexivity); vm_compute; reflexivity. Qed.

(* ---------------------------------------------------------------------------------------------------------------------------------
   Tie to the source (re-proved on every run against genprops/IlpGen.v): the program get_best_soft_alignment hands to the solver - 0/1 variables,
   objective disorders . x, A x >= 1 in both branches, integer solvers in both branches, the same candidates, matrix and decoding as the best
   alignment. *)
Theorem C11_src_program :
  soft_ilp_src =
  [("guard"%string, "len(self.annotators) >= 2 and self"%string);
   ("candidates"%string, "dissimilarity.valid_alignments(self)"%string);
   ("matrix"%string, "build_A(possible_unitary_alignments, sizes)"%string);
   ("variable"%string, "cp.Variable(shape=(n,), boolean=True)"%string);
   ("primary"%string, "import cylp; cp.Problem(cp.Minimize(disorders.T @ x), [A @ x >= 1]).solve(solver=cp.CBC)"%string);
   ("fallback_when"%string, "(ImportError, cp.SolverError)"%string);
   ("fallback"%string, "cp.Problem(cp.Minimize(disorders.T @ x), [A @ x >= 1]).solve(solver=cp.GLPK_MI)"%string);
   ("decode"%string, "np.where(x.value > 0.9)"%string);
   ("chosen"%string, "possible_unitary_alignments[chosen_alignments_ids] | disorders[chosen_alignments_ids]"%string);
   ("units"%string, "u_align_tuple = []; for annotator_id, unit_id in enumerate(alignment): annotator, units = self._annotations.peekitem(annotator_id) try: unit = units[unit_id] u_align_tuple.append((annotator, unit)) except IndexError: u_align_tuple.append((annotator, None)); unitary_alignment = UnitaryAlignment(list(u_align_tuple)); unitary_alignment.disorder = alignments_disorders[alignment_id]; set_unitary_alignements.append(unitary_alignment)"%string);
   ("result"%string, "return SoftAlignment(set_unitary_alignements, continuum=self, check_validity=False, disorder=np.sum(alignments_disorders) / self.avg_num_annotations_per_annotator)"%string);
   ("order"%string, "Assert; sizes; For; (disorders, possible_unitary_alignments); n; A; x; Try; Assert; (chosen_alignments_ids,); chosen_alignments; alignments_disorders; ImportFrom; set_unitary_alignements; For; Return"%string)].
Proof. reflexivity. Qed.
