(* C07 - Candidate unitary alignments are exactly those under the n*delta_empty cut.
   Property theorems only; each is closed by [exact] of a lemma proved in theories/Align/CandProofs.v - except the C07_src_* theorems at the
   end, which are re-proved on every run against genprops/KernelGen.v, the translation of the cut, the keep test, the final strip and the loop
   shapes of _get_all_valid_alignments from the CURRENT dissimilarity.py (harness/gen_kernel.py). *)
From Coq Require Import String List Arith ZArith Bool Lia.
From PGA Require Import Align.Tuples Align.Cover Align.Inst Align.CandProofs.
From PGAgen Require Import ConstGen.
From PGAprops Require Import KernelGen.
Import ListNotations.

(* the enumeration of index tuples is complete, duplicate-free, and ends with the all-null tuple *)
Theorem C07_enumeration_complete ss t : In t (all_tuples ss) <-> Forall2 lt t ss.
Proof. exact (all_tuples_complete ss t). Qed.
Theorem C07_enumeration_nodup ss : NoDup (all_tuples ss).
Proof. exact (all_tuples_NoDup ss). Qed.
Theorem C07_all_null_last sizes : last (all_tuples (map S sizes)) [] = sizes.
Proof. exact (all_tuples_S_last sizes). Qed.

(* FULL STATEMENT: for delta_empty >= 0 the candidate list holds, exactly once each, all combinations of
   one-unit-or-empty per annotator whose pair-cost sum is at most the cut, never the all-empty one *)
Theorem C07_candidates_spec I : (0 <= de I)%Z ->
  NoDup (candidates I) /\
  forall t, In t (candidates I) <->
    (Forall2 (fun i s => i <= s) t (sz I) /\ t <> sz I /\ (ua_sum I t <= cut I)%Z).
Proof. exact (candidates_spec I). Qed.

(* ... for any number of candidates: the growable-buffer computation equals the plain specification for every
   initial capacity c0 and growth divisor g with c0 / g >= 1 (the code: 10000 and 2) *)
Theorem C07_buffered_eq_plain c0 g I : 1 <= g -> 1 <= c0 / g ->
  candidates_buf c0 g I = Some (candidates I).
Proof. exact (candidates_buf_eq c0 g I). Qed.

(* ... in particular for the constants of the CURRENT source (gen/ConstGen.v is regenerated from dissimilarity.py on every run, so this
   obligation is re-proved against what the code says now: a change of the initial capacity or of the growth rule that violates the hypothesis,
   or that the translator no longer recognises, breaks it) *)
Theorem C07_buffered_eq_plain_code_constants I :
  candidates_buf (N.to_nat chunk_size) (N.to_nat growth_divisor) I = Some (candidates I).
Proof. apply candidates_buf_eq; apply Nat.leb_le; vm_compute; reflexivity. Qed.

(* the verified judge applied to the library's output on every explored case *)
Theorem C07_judge_sound I gray tol lib : (0 <= gray)%Z -> c07_check I gray tol lib = None ->
  NoDup (map fst lib) /\
  (forall t v, In (t, v) lib -> In t (real_tuples I) /\ (ua_sum I t <= cut I + gray)%Z /\ (Z.abs (v - ua_sum I t) <= tol)%Z) /\
  (forall t, In t (real_tuples I) -> (ua_sum I t <= cut I - gray)%Z -> In t (map fst lib)).
Proof. exact (c07_check_sound I gray tol lib). Qed.
Theorem C07_judge_exact I lib : (0 <= de I)%Z -> c07_check I 0 0 lib = None ->
  lib = map (fun t => (t, ua_sum I t)) (candidates I).
Proof. exact (c07_check_exact I lib). Qed.

(* non-vacuity: a 3-annotator instance (sizes 1,0,2, one empty annotator) where one tuple is cut and four are kept;
   a capacity-2 buffer grows twice on it *)
Definition ex_inst : inst := mkInst [1; 0; 2] [[]; [[]]; [[[8%Z]; [0%Z]]; []]] 1%Z.
Example C07_example :
  candidates ex_inst = [[1;0;0]; [0;0;1]; [1;0;1]; [0;0;2]] /\ passes ex_inst [0;0;0] = false /\ (0 <= de ex_inst)%Z.
Proof. split; [vm_compute; reflexivity | split; [vm_compute; reflexivity | vm_compute; discriminate]]. Qed.
Example C07_example_buf : candidates_buf 2 2 ex_inst = Some (candidates ex_inst).
Proof. vm_compute; reflexivity. Qed.

Print Assumptions C07_candidates_spec.
Print Assumptions C07_buffered_eq_plain.
Print Assumptions C07_judge_sound.
Print Assumptions C07_judge_exact.
Print Assumptions C07_all_null_last.

(* ---------------------------------------------------------------------------------------------------------------------------------
   Tie to the source (obligations a change of dissimilarity.py can break). *)
Lemma c2n_src_eq n : c2n_src (Z.of_nat n) = Z.of_nat (c2n n).
Proof.
  unfold c2n_src, c2n. rewrite Nat2Z.inj_div, Nat2Z.inj_mul. destruct n as [|n]; [reflexivity|].
  rewrite Nat2Z.inj_sub by lia. reflexivity.
Qed.
(* `criterium = c2n * delta_empty * nb_annotators` IS the model's cut *)
Theorem C07_src_cut I : criterium_src (de I) (Z.of_nat (nann I)) = cut I.
Proof.
  (* robust to a rearrangement of the product: the division is rewritten first, the rest is ring *)
  pose proof (c2n_src_eq (nann I)) as E. unfold c2n_src in E. unfold criterium_src, cut. cbv zeta. rewrite ?E; first [reflexivity | ring].
Qed.
(* `if disorder <= criterium` IS the model's passes *)
Theorem C07_src_keep I t : keep_src (criterium_src (de I) (Z.of_nat (nann I))) (ua_sum I t) = passes I t.
Proof. rewrite C07_src_cut. reflexivity. Qed.
(* `[:i_chosen - 1]` drops exactly the last recorded tuple, whatever was recorded *)
Theorem C07_src_strip (A : Type) (l : list A) : firstn (Z.to_nat (kept_prefix_src (Z.of_nat (length l)))) l = removelast l.
Proof.
  unfold kept_prefix_src. destruct l as [|x l]; [reflexivity|].
  replace (Z.to_nat (Z.of_nat (length (x :: l)) - 1)) with (length l) by (cbn [length]; lia).
  rewrite (removelast_firstn_len (x :: l)). reflexivity.
Qed.
(* the loops around them have the shape the model reads: every tuple of iter_tuples(sizes + 1); the pair sum over annot_b < annot_a < n of the
   precomputed matrices (ua_sum over pairs n); a kept tuple is recorded with its sum, unconditionally; the matrices hold d_mat of the two units
   and delta_empty in the extra row and column (pair_cost); what is returned is divided by c2n *)
Theorem C07_src_shape :
  valid_alignments_shape =
  [("pair_loop", expected_pair_loop);
   ("record", "disorders[i_chosen] = disorder; alignments[i_chosen] = unitary_alignment; i_chosen += 1");
   ("after_strip", "disorders /= c2n; return (disorders, alignments)");
   ("sizes_with_null", "sizes_with_null[annotator_id] = len(unit_arrays[annotator_id]) + 1");
   ("empty_fills", "for annot_a in range(nb_annot_a + 1): matrix[annot_a, nb_annot_b] = delta_empty; for annot_b in range(nb_annot_b + 1): matrix[nb_annot_a, annot_b] = delta_empty");
   ("real_entries", "matrix[annot_a, annot_b] = d_mat(unit_arrays[annotator_a][annot_a], unit_arrays[annotator_b][annot_b])")]%string.
Proof. reflexivity. Qed.
