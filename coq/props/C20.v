(* C20 - Command-line results equal the API results for the same options.
   (partial: the theorems are finite decisions over the option table and wiring REGENERATED from cli_apps.py on every run - so they are re-proved
   against what the code says now; equality of the reported numbers with the API is established per explored option set by the correspondence.) *)
From Coq Require Import List String Bool.
From PGAgen Require Import CliGen.
From PGA Require Import Cli.Cli.
Import ListNotations.

(* each categorical-dissimilarity choice the parser accepts is mapped to the documented class, no branch is dead, distinct choices differ *)
Theorem C20_choices_all_handled : choices_all_handled = true.
Proof. vm_compute. reflexivity. Qed.
Theorem C20_no_dead_branch : no_dead_branch = true.
Proof. vm_compute. reflexivity. Qed.
Theorem C20_choices_injective : choices_injective = true.
Proof. vm_compute. reflexivity. Qed.
(* every semantic option is wired to the parameter it names (alpha, beta, delta_empty, categorical dissimilarity, precision, sample count,
   sampler switch, seed, separator) *)
Theorem C20_options_take_effect : options_take_effect = true.
Proof. vm_compute. reflexivity. Qed.
