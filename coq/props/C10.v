(* C10 - The fast alignment terminates with a valid, never-better-than-optimal alignment.
   The best alignment of each window is an oracle; the theorems assume of each recorded answer only that it is an acceptable alignment of the
   current state (pairwise distinct real units of the state, no all-empty tuple) - which the harness checks per iteration through C01's judge.
   Proofs in theories/Fast/Proofs.v.  The C10_src_* theorems at the end are re-proved on every run against genprops/FastGen.v, the translation of
   the scalar logic and loop shapes of get_first_window / get_fast_alignment from the CURRENT continuum.py (harness/gen_fast.py). *)
From Coq Require Import String List Arith ZArith Bool Permutation Lia.
From PGA Require Import Fast.Model Fast.Proofs Fast.FastFull Fast.Window.
From PGAprops Require Import FastGen.
Import ListNotations.
Local Open Scope Z_scope.

(* windows are made of units of the remaining continuum; the limit is never negative *)
Theorem C10_window_from_state dtab thr w st win xl : first_window dtab thr w st = (win, xl) ->
  forall u, In u win -> exists l, In l st /\ In u l.
Proof. exact (first_window_incl dtab thr w st win xl). Qed.

(* REFUTED on the faithful (unrepaired) step: an iteration may take nothing and leave the state unchanged, so the loop never ends.
   This is the defect repaired by the fix commit (known_findings.txt, C10). *)
Theorem C10_unrepaired_step_can_stall :
  exists dtab thr w st al, NoDup (ids_of st) /\ acceptable st al /\ al <> [] /\ (0 < total_units st)%nat /\
    fast_step false dtab thr w st al = ([], st).
Proof. exact unrepaired_step_can_stall. Qed.

(* the repaired step always removes a unit ... *)
Theorem C10_step_progress dtab thr w st al ch st' :
  NoDup (ids_of st) -> acceptable st al -> al <> [] -> fast_step true dtab thr w st al = (ch, st') ->
  (total_units st' < total_units st)%nat.
Proof. exact (fast_step_progress dtab thr w st al ch st'). Qed.
(* ... so the loop TERMINATES: as many iterations as there are units always empty the continuum, for every window size and every oracle *)
Theorem C10_terminates dtab thr w st oracle res final :
  NoDup (ids_of st) -> all_acceptable true dtab thr w st oracle -> (total_units st <= length oracle)%nat ->
  fast_run true dtab thr w st oracle = (res, final) -> total_units final = 0%nat.
Proof. exact (fast_run_terminates dtab thr w st oracle res final). Qed.

(* FULL (validity): the collected unitary alignments and the remaining units always partition the original units: nothing is lost, nothing
   is taken twice; at termination the result is a partition of the continuum *)
Theorem C10_result_partitions_units repaired dtab thr w st oracle res final :
  NoDup (ids_of st) -> all_acceptable repaired dtab thr w st oracle ->
  fast_run repaired dtab thr w st oracle = (res, final) ->
  NoDup (al_ids res) /\ NoDup (ids_of final) /\
  (forall i, In i (ids_of st) <-> (In i (al_ids res) \/ In i (ids_of final))) /\
  (forall i, In i (al_ids res) -> ~ In i (ids_of final)).
Proof. exact (fast_run_partition repaired dtab thr w st oracle res final). Qed.

(* what is taken comes from the window's alignment; when every unitary alignment ends before the limit (in particular when the window covers
   the whole continuum, whose limit is its rightmost end) the whole alignment is taken, so the result IS the window's best alignment *)
Theorem C10_chosen_from_alignment repaired al xl : incl (chosen repaired al xl) al.
Proof. exact (chosen_incl repaired al xl). Qed.
Theorem C10_full_window_takes_everything repaired al xl :
  (forall t, In t al -> ble (tbound t) (Some xl) = true) -> Permutation (chosen repaired al xl) al.
Proof. exact (chosen_all repaired al xl). Qed.

(* FULL (window covering the continuum): when w * (number of annotators) >= number of units, the window is the whole state and its limit is at
   least every end, so ONE step takes the whole alignment the oracle returns and empties the continuum: the fast alignment IS the window's best
   alignment, i.e. the best alignment of the continuum *)
Theorem C10_full_window_is_everything dtab thr w st win xl :
  (total_units st <= w * length st)%nat -> first_window dtab thr w st = (win, xl) ->
  Permutation (map fid win) (ids_of st) /\ (forall u, In u win -> fe u <= xl).
Proof. exact (first_window_full dtab thr w st win xl). Qed.
Theorem C10_full_window_one_step repaired dtab thr w st al ch st' :
  (total_units st <= w * length st)%nat -> NoDup (ids_of st) -> acceptable st al ->
  (forall i, In i (ids_of st) -> In i (al_ids al)) ->
  (forall t u, In t al -> In (Some u) t -> exists l, In l st /\ In u l) ->
  fast_step repaired dtab thr w st al = (ch, st') ->
  Permutation ch al /\ total_units st' = 0%nat.
Proof. exact (fast_step_full_window repaired dtab thr w st al ch st'). Qed.

Example C10_example :
  (* the probing witness scaled by 10: a: [0,10] [20,30]; b: [0,500] [21,31]; window size 1 *)
  fast_step false wit_dtab 1 1 wit_st wit_al = ([], wit_st) /\
  total_units (snd (fast_step true wit_dtab 1 1 wit_st wit_al)) = 2%nat.
Proof. vm_compute. split; reflexivity. Qed.

(* ---------------------------------------------------------------------------------------------------------------------------------
   Tie to the source: the number of units the head takes, the head's loop and take tests, the reachability threshold, and the statements that
   fix the rest of the two loops (x_limit = the window's upper bound; every window gets its best alignment; take_until_limit, else the tuple
   ending first; every chosen tuple is recorded with its disorder and its real units are removed from the working copy; the loop runs while
   the copy holds a unit) are those the model was written for. *)
Theorem C10_src_to_take (st : fstate) (w : nat) :
  to_take_src (Z.of_nat (total_units st)) (Z.of_nat w) (Z.of_nat (length st)) = Z.of_nat (Nat.min (total_units st) (w * length st)).
Proof. unfold to_take_src. rewrite Nat2Z.inj_min, Nat2Z.inj_mul. reflexivity. Qed.
Theorem C10_src_head_continues (to_take taken : nat) : head_continues_src (Z.of_nat taken) (Z.of_nat to_take) = negb (to_take <=? taken)%nat.
Proof.
  unfold head_continues_src. destruct (Nat.leb_spec to_take taken); cbn [negb].
  - apply Z.ltb_ge. lia.
  - apply Z.ltb_lt. lia.
Qed.
Theorem C10_src_head_takes (u : funit) xl : head_takes_src (fe u) xl = (fe u <=? xl).
Proof. reflexivity. Qed.
Theorem C10_src_reach_stops d de n : reach_stops_src d de n = (de * n <? d).
Proof. reflexivity. Qed.
Theorem C10_src_first_window_shape :
  first_window_shape_src =
  [("head_min", "if index >= size: continue; unit = units[index]; x_limit = min(x_limit, unit.segment.end)");
   ("head_taken", "window.add(annotator, unit.segment, unit.annotation); rightmost_unit = max(unit, rightmost_unit); taken_units += 1; indexes[i] += 1");
   ("x_limit_after_head", "x_limit = window.bound_sup");
   ("reach_loop", "for (annotator, units, index, size) in zip(annotators, annotations, indexes, sizes): while index < size");
   ("reach_body", "unit = units[index]; window.add(annotator, unit.segment, unit.annotation); index += 1");
   ("smallest_unit", "Unit(Segment(-np.inf, -np.inf), None)");
   ("return", "return (window, x_limit)")]%string.
Proof. reflexivity. Qed.
Theorem C10_src_fast_alignment_shape :
  fast_alignment_shape_src =
  [("loop", "while copy");
   ("steps", "window, x_limit = copy.get_first_window(dissimilarity, window_size); best_alignment = window.get_best_alignment(dissimilarity); chosen_alignments = list(best_alignment.take_until_limit(x_limit))");
   ("fallback", "if not chosen_alignments: chosen_alignments = [min(best_alignment.unitary_alignments, key=lambda unit_align: unit_align.bounds[1])]");
   ("consume", "for chosen in chosen_alignments: unitary_alignments.append(chosen); disorders.append(chosen.disorder); for annotator, unit in chosen.n_tuple: if unit is not None: copy.remove(annotator, unit)");
   ("copy", "self.copy()");
   ("return", "return Alignment(unitary_alignments, self, check_validity=False, disorder=np.sum(disorders) / self.avg_num_annotations_per_annotator)")]%string.
Proof. reflexivity. Qed.

(* ---------------------------------------------------------------------------------------------------------------------------------
   Which window sizes reach get_fast_alignment when fast-mode gamma chooses for itself.  The sizes offered by measure_best_window_size are
   np.arange(1, max(2, M)) (M = largest number of units of an annotator): never empty, so the minimum of the cost estimate exists; the size stored
   is the entry at that minimum, hence a whole number in [1, max(2, M) - 1]; nothing else is stored (np.inf stays = exact route); the job takes
   the windowed route exactly when a size was stored.  The theorems above hold for every size, so in particular for every measured one.
   The floating-point cost estimate is not modelled (any choice among the offered sizes gives a valid alignment). *)
Theorem C10_offered_window_sizes_nonempty M : arange 1 (Z.max 2 M) <> [].
Proof. exact (window_sizes_nonempty M). Qed.
Theorem C10_measured_window_in_range M i b w : measured_window 1 (Z.max 2 M) i b = Some w -> 1 <= w <= Z.max 2 M - 1.
Proof. exact (measured_window_in_range M i b w). Qed.
Theorem C10_fast_job_window_positive M i b w : fast_job_route (measured_window 1 (Z.max 2 M) i b) = Windowed w -> 1 <= w.
Proof. exact (fast_job_window_positive M i b w). Qed.
Theorem C10_fast_job_exact_iff_unmeasured bws : fast_job_route bws = Exact <-> bws = None.
Proof. exact (fast_job_exact_iff_unmeasured bws). Qed.
Example C10_measured_window_example : measured_window 1 (Z.max 2 12) 3 true = Some 4 /\ measured_window 1 (Z.max 2 1) 0 true = Some 1 /\
                                      measured_window 1 (Z.max 2 12) 3 false = None.
Proof. vm_compute. repeat split. Qed.

(* tie to the source: the offered range, the one store (entry at the arg-minimum, guarded by a comparison of the minimum itself), no other branch,
   and the dispatch of the fast job *)
Theorem C10_src_window_range M : arange (window_lo_src M) (window_hi_src M) = arange 1 (Z.max 2 M).
Proof. reflexivity. Qed.
Theorem C10_src_measure_window_shape :
  measure_window_shape_src =
  [("min_index", "np.argmin(times)"); ("guard_lhs", "times[min_index]"); ("store", "self.best_window_size = window_sizes[min_index]"); ("else", "")]%string.
Proof. reflexivity. Qed.
Theorem C10_src_fast_job :
  fast_job_src =
  ["if continuum.best_window_size == np.inf: return continuum.get_best_alignment(dissimilarity)";
   "return continuum.get_fast_alignment(dissimilarity, continuum.best_window_size)"]%string.
Proof. reflexivity. Qed.
