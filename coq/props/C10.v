(* C10 - The fast alignment terminates with a valid, never-better-than-optimal alignment.
   The best alignment of each window is an oracle; the theorems assume of each recorded answer only that it is an acceptable alignment of the
   current state (pairwise distinct real units of the state, no all-empty tuple) - which the harness checks per iteration through C01's judge.
   Proofs in theories/Fast/Proofs.v. *)
From Coq Require Import List Arith ZArith Bool Permutation.
From PGA Require Import Fast.Model Fast.Proofs Fast.FastFull.
Import ListNotations.
Local Open Scope Z_scope.

(* windows are made of units of the remaining continuum; the limit is never negative *)
Theorem C10_window_from_state dtab thr w st win xl : first_window dtab thr w st = (win, xl) ->
  forall u, In u win -> exists l, In l st /\ In u l.
Proof. exact (first_window_incl dtab thr w st win xl). Qed.

(* REFUTED on the faithful (unrepaired) step: an iteration may take nothing and leave the state unchanged, so the loop never ends.
   This is the defect repaired by the fix commit (known_findings.txt, C10). *)
Theorem C10_unrepaired_step_can_stall :
  exists dtab thr w st al, NoDup (ids_of st) /\ acceptable st al /\ al <> [] /\ (0 < total_units st)%nat /\
    fast_step false dtab thr w st al = ([], st).
Proof. exact unrepaired_step_can_stall. Qed.

(* the repaired step always removes a unit ... *)
Theorem C10_step_progress dtab thr w st al ch st' :
  NoDup (ids_of st) -> acceptable st al -> al <> [] -> fast_step true dtab thr w st al = (ch, st') ->
  (total_units st' < total_units st)%nat.
Proof. exact (fast_step_progress dtab thr w st al ch st'). Qed.
(* ... so the loop TERMINATES: as many iterations as there are units always empty the continuum, for every window size and every oracle *)
Theorem C10_terminates dtab thr w st oracle res final :
  NoDup (ids_of st) -> all_acceptable true dtab thr w st oracle -> (total_units st <= length oracle)%nat ->
  fast_run true dtab thr w st oracle = (res, final) -> total_units final = 0%nat.
Proof. exact (fast_run_terminates dtab thr w st oracle res final). Qed.

(* FULL (validity): the collected unitary alignments and the remaining units always partition the original units: nothing is lost, nothing
   is taken twice; at termination the result is a partition of the continuum *)
Theorem C10_result_partitions_units repaired dtab thr w st oracle res final :
  NoDup (ids_of st) -> all_acceptable repaired dtab thr w st oracle ->
  fast_run repaired dtab thr w st oracle = (res, final) ->
  NoDup (al_ids res) /\ NoDup (ids_of final) /\
  (forall i, In i (ids_of st) <-> (In i (al_ids res) \/ In i (ids_of final))) /\
  (forall i, In i (al_ids res) -> ~ In i (ids_of final)).
Proof. exact (fast_run_partition repaired dtab thr w st oracle res final). Qed.

(* what is taken comes from the window's alignment; when every unitary alignment ends before the limit (in particular when the window covers
   the whole continuum, whose limit is its rightmost end) the whole alignment is taken, so the result IS the window's best alignment *)
Theorem C10_chosen_from_alignment repaired al xl : incl (chosen repaired al xl) al.
Proof. exact (chosen_incl repaired al xl). Qed.
Theorem C10_full_window_takes_everything repaired al xl :
  (forall t, In t al -> ble (tbound t) (Some xl) = true) -> Permutation (chosen repaired al xl) al.
Proof. exact (chosen_all repaired al xl). Qed.

(* FULL (window covering the continuum): when w * (number of annotators) >= number of units, the window is the whole state and its limit is at
   least every end, so ONE step takes the whole alignment the oracle returns and empties the continuum: the fast alignment IS the window's best
   alignment, i.e. the best alignment of the continuum *)
Theorem C10_full_window_is_everything dtab thr w st win xl :
  (total_units st <= w * length st)%nat -> first_window dtab thr w st = (win, xl) ->
  Permutation (map fid win) (ids_of st) /\ (forall u, In u win -> fe u <= xl).
Proof. exact (first_window_full dtab thr w st win xl). Qed.
Theorem C10_full_window_one_step repaired dtab thr w st al ch st' :
  (total_units st <= w * length st)%nat -> NoDup (ids_of st) -> acceptable st al ->
  (forall i, In i (ids_of st) -> In i (al_ids al)) ->
  (forall t u, In t al -> In (Some u) t -> exists l, In l st /\ In u l) ->
  fast_step repaired dtab thr w st al = (ch, st') ->
  Permutation ch al /\ total_units st' = 0%nat.
Proof. exact (fast_step_full_window repaired dtab thr w st al ch st'). Qed.

Example C10_example :
  (* the probing witness scaled by 10: a: [0,10] [20,30]; b: [0,500] [21,31]; window size 1 *)
  fast_step false wit_dtab 1 1 wit_st wit_al = ([], wit_st) /\
  total_units (snd (fast_step true wit_dtab 1 1 wit_st wit_al)) = 2%nat.
Proof. vm_compute. split; reflexivity. Qed.
