(* C19 - Corpus shuffling yields valid corpora and each perturbation is confined.  Proofs in theories/Sampler/CstProofs.v.
   (partial: the laws of the random primitives are NumPy's; count-based clauses carry an explicit freshness side condition.)
   The C19_src_* theorems at the end are re-proved on every run against genprops/CstGen.v, the translation of the tool's arithmetic (amplitude,
   counts, shifted ends and retry test, removal test, added segment, transition entry, split bounds and pieces, order of the perturbations)
   from the CURRENT cst.py (harness/gen_cst.py). *)
From Coq Require Import String List Arith ZArith QArith Qabs Qround Bool Lia.
From PGA Require Import Sampler.Cst Sampler.CstProofs.
From PGAgen Require Import ConstGen.
From PGAprops Require Import CstGen ShapesGen.
Import ListNotations.
Local Open Scope Q_scope.

(* false negatives only remove units and never leave an annotator empty *)
Theorem C19_false_neg_only_removes m us st r st' : neg_annotator m us st = Some (r, st') -> incl r us /\ r <> [].
Proof. exact (neg_annotator_confined m us st r st'). Qed.
(* false positives only add units *)
Theorem C19_false_pos_only_adds prec k cur st r st' : pos_units prec k cur st = Some (r, st') -> incl cur r.
Proof. exact (pos_units_superset prec k cur st r st'). Qed.
(* category shuffling keeps all segments *)
Theorem C19_cat_shuffle_keeps_segments snapshot cur st r st' : cat_units snapshot cur st = Some (r, st') ->
  forall v, In v r -> exists u, (In u cur \/ In u snapshot) /\ cs v = cs u /\ ce v = ce u.
Proof. exact (cat_units_segments snapshot cur st r st'). Qed.
(* shifting: every unit is an original one with moved ends, same category, start < end; the number of units cannot grow *)
Theorem C19_shift_moves_ends_only shift_max u st v st' : shift_draw shift_max u st = Some (v, st') ->
  cc v = cc u /\ cs v < ce v /\ exists a b, cs v == cs u + a * shift_max /\ ce v == ce u + b * shift_max.
Proof. exact (shift_draw_spec shift_max u st v st'). Qed.
Theorem C19_shift_count prec shift_max snapshot cur st r st' :
  shift_units prec shift_max snapshot cur st = Some (r, st') -> (length r <= length cur + length snapshot)%nat.
Proof. exact (shift_units_length prec shift_max snapshot cur st r st'). Qed.
(* splitting: a real split replaces a unit by two adjacent pieces of the same category: total duration kept, one unit more (fresh pieces) *)
Theorem C19_split_keeps_duration prec us st r st' i cut u :
  st = CRandint i :: CUniform cut :: st' -> nth_error us i = Some u -> split_one prec us st = Some (r, st') ->
  addable prec (mkCU cut (ce u) (cc u)) = true -> addable prec (mkCU (cs u) cut (cc u)) = true ->
  ~ InE (mkCU cut (ce u) (cc u)) (cdel u us) -> ~ InE (mkCU (cs u) cut (cc u)) (cins (mkCU cut (ce u) (cc u)) (cdel u us)) ->
  total_duration r == total_duration us /\ length r = S (length us).
Proof. exact (split_one_duration prec us st r st' i cut u). Qed.

(* magnitude 0: no unit is removed, no unit is added, no split happens, a shifted unit does not move *)
Theorem C19_magnitude_zero_false_neg snapshot cur st r st' : randoms_nonneg st -> neg_units 0 snapshot cur st = Some (r, st') -> r = cur.
Proof. exact (neg_units_zero snapshot cur st r st'). Qed.
Theorem C19_magnitude_zero_false_pos prec cur st : pos_units prec 0 cur st = Some (cur, st).
Proof. exact (pos_units_zero prec cur st). Qed.
Theorem C19_magnitude_zero_split prec corpus st : split_rounds prec 0 corpus st = Some (corpus, st).
Proof. exact (split_rounds_zero prec corpus st). Qed.
Theorem C19_magnitude_zero_shift u st v st' : shift_draw 0 u st = Some (v, st') -> unit_eqv v u.
Proof. exact (shift_draw_zero u st v st'). Qed.

(* validity: positive durations are preserved; the number of annotators never changes; with every flag off nothing happens *)
Theorem C19_positive_durations_shift prec shift_max snapshot cur st r st' : 0 <= prec ->
  shift_units prec shift_max snapshot cur st = Some (r, st') ->
  Forall (fun u => cs u < ce u) cur -> Forall (fun u => cs u < ce u) r.
Proof. exact (shift_units_valid prec shift_max snapshot cur st r st'). Qed.
Theorem C19_positive_durations_false_pos prec k cur st r st' : 0 <= prec -> pos_units prec k cur st = Some (r, st') ->
  Forall (fun u => cs u < ce u) cur -> Forall (fun u => cs u < ce u) r.
Proof. exact (pos_units_valid prec k cur st r st'). Qed.
Theorem C19_annotators_kept f corpus st r st' : per_annotator f corpus st = Some (r, st') -> length r = length corpus.
Proof. exact (per_annotator_length f corpus st r st'). Qed.
Theorem C19_all_flags_off prec m shift_max kpos ksplit corpus st :
  cst_run prec m shift_max kpos ksplit (mkOpts false false false false false) corpus st = Some (corpus, st).
Proof. exact (cst_run_all_off prec m shift_max kpos ksplit corpus st). Qed.

(* the class constants of the CURRENT source (regenerated on every run) are non-negative, so the iteration counts int(m * factor * x) and
   shift_max are non-negative for magnitudes in [0, 1] *)
Theorem C19_source_factors_nonneg :
  Qle_bool 0 shift_factor = true /\ Qle_bool 0 split_factor = true /\ Qle_bool 0 false_pos_factor = true.
Proof. vm_compute. repeat split. Qed.

Example C19_example :
  split_one (1#1000) [mkCU 0 10 0] [CRandint 0; CUniform 4] = Some ([mkCU 0 4 0; mkCU 4 10 0], []) /\
  neg_annotator 1 [mkCU 0 10 0; mkCU 20 30 1] [CChoice 1; CRandom (1#2); CRandom (1#3)] = Some ([mkCU 20 30 1], []).
Proof. vm_compute. split; reflexivity. Qed.

(* a unit that cannot be split (a piece would be too short for the container) is left as it was - among pairwise distinct units its annotator keeps
   duration and count; the code as it was re-added the unit on top of the first piece (refuted; repaired by a fix commit) *)
Theorem C19_unsplittable_unit_left_unchanged prec us st r st' i cut u :
  st = CRandint i :: CUniform cut :: st' -> nth_error us i = Some u -> split_one prec us st = Some (r, st') ->
  addable prec (mkCU cut (ce u) (cc u)) = false \/ addable prec (mkCU (cs u) cut (cc u)) = false ->
  ~ InE (mkCU cut (ce u) (cc u)) (cdel u us) -> ~ InE u (cdel u us) ->
  total_duration r == total_duration us /\ length r = length us.
Proof. exact (split_one_unsplittable_keeps prec us st r st' i cut u). Qed.
Theorem C19_original_split_counts_duration_twice :
  exists prec us st r st', split_one_gen false prec us st = Some (r, st') /\ ~ total_duration r == total_duration us /\
                          split_one_gen true prec us st = Some (us, st').
Proof. exact split_original_counts_duration_twice. Qed.

(* ---------------------------------------------------------------------------------------------------------------------------------
   Tie to the source: the arithmetic of cst.py as written IS what the model applies (shift_draw's candidate ends and acceptance, the removal
   test, the added segment, the two pieces of a split and the interval its cut is drawn from, the order of the five perturbations), and with
   magnitude 0 the source's own expressions give amplitude 0, no added unit, no split round, no removal, and the identity transition row -
   read from the attributes at the time of the call (magnitude is a parameter of every expression, nothing is cached). *)
Theorem C19_src_shift shift_max u a b st :
  shift_draw shift_max u (CUniform a :: CUniform b :: st) =
  (let '(s, e) := shift_ends_src (cs u) (ce u) shift_max a b in
   if shift_retry_src s e then shift_draw shift_max u st else Some (mkCU s e (cc u), st)).
Proof.
  unfold shift_ends_src, shift_retry_src. cbn [shift_draw]. unfold Qltb.
  destruct (Qle_bool (ce u + b * shift_max) (cs u + a * shift_max)); reflexivity.
Qed.
Theorem C19_src_false_neg m x : false_neg_removes_src m x = Qltb x m.
Proof. reflexivity. Qed.
Theorem C19_src_false_pos_segment center d : false_pos_segment_src center d = (center - Qabs d / 2, center + Qabs d / 2).
Proof. reflexivity. Qed.
Theorem C19_src_split_pieces u cut : split_pieces_src (cs u) (ce u) cut = [(cut, ce u); (cs u, cut)].
Proof. reflexivity. Qed.
Theorem C19_src_split_cut_inside s e : s < e -> let '(lo, hi) := split_cut_bounds_src s e in s < lo /\ lo < hi /\ hi == e.
Proof.
  intros H. unfold split_cut_bounds_src. cbv zeta. repeat split; try reflexivity.
  - assert (0 < (e - s) * (5764607523034235 # 576460752303423488)).
    { apply Qmult_lt_0_compat; [|reflexivity]. unfold Qminus. rewrite <- (Qplus_opp_r s). apply Qplus_lt_l. exact H. }
    rewrite <- (Qplus_0_r s) at 1. apply Qplus_lt_r. assumption.
  - assert ((e - s) * (5764607523034235 # 576460752303423488) < (e - s) * 1).
    { apply Qmult_lt_l; [|reflexivity]. unfold Qminus. rewrite <- (Qplus_opp_r s). apply Qplus_lt_l. exact H. }
    rewrite Qmult_1_r in H0. apply (Qplus_lt_r _ _ s) in H0. ring_simplify in H0. ring_simplify. exact H0.
Qed.
Theorem C19_src_order :
  corpus_shuffle_order_src = [("shift", "shift_shuffle"); ("false_pos", "false_pos_shuffle"); ("false_neg", "false_neg_shuffle");
                              ("cat_shuffle", "category_shuffle"); ("split", "splits_shuffle")]%string /\
  corpus_shuffle_first_src = "continuum = self.corpus_from_reference(annotators)"%string.
Proof. split; reflexivity. Qed.
Lemma qtrunc_src_zero x : x == 0 -> qtrunc_src x = 0%Z.
Proof. intros E. unfold qtrunc_src. destruct (Qle_bool 0 x); [rewrite (Qfloor_comp _ _ E)|rewrite (Qceiling_comp _ _ E)]; reflexivity. Qed.
(* magnitude 0: no amplitude, no added unit, no split round, no removal, identity transition row *)
Theorem C19_src_magnitude_zero avg n x eye sec : 0 <= x ->
  shift_max_src 0 avg == 0 /\ false_pos_count_src 0 n == 0 /\ split_count_src 0 n == 0 /\ false_neg_removes_src 0 x = false /\ cat_prob_src eye sec 0 == eye.
Proof.
  intros Hx. unfold shift_max_src, false_pos_count_src, split_count_src, false_neg_removes_src, cat_prob_src.
  split; [|split; [|split; [|split]]].
  - ring.
  - rewrite qtrunc_src_zero by ring. reflexivity.
  - rewrite qtrunc_src_zero by ring. reflexivity.
  - unfold Qltb. apply negb_false_iff. apply Qle_bool_iff. exact Hx.
  - ring.
Qed.

(* the statements around the arithmetic: what is removed / added and what is drawn, per perturbation (normalised source text) *)
Theorem C19_src_shapes :
  shift_shape_src = ["continuum.remove(annotator, unit)"; "continuum.add(annotator, Segment(start_seg, end_seg), unit.annotation)"; "np.random.uniform(-1, 1)"]%string /\
  false_neg_shape_src = ["security = np.random.choice(continuum._annotations[annotator])"; "if len(continuum._annotations[annotator]) == 0: continuum.add(annotator, security.segment, security.annotation)"]%string /\
  false_pos_shape_src = ["category = np.random.choice(category_weights.keys(), p=category_weights.values())"; "center = np.random.uniform(bounds_inf, bounds_sup)"; "avg_dur = np.average([unit.segment.end - unit.segment.start for unit in ref_units])"; "var_dur = np.std([unit.segment.end - unit.segment.start for unit in ref_units])"; "bounds_inf, bounds_sup = (self._reference_continuum.bound_inf, self._reference_continuum.bound_sup)"]%string /\
  cat_shape_src = ["np.random.choice(categories, p=prob_matrix[category_weights.index(unit.annotation)])"; "continuum.remove(annotator, unit)"; "continuum.add(annotator, Segment(unit.segment.start, unit.segment.end), new_category)"]%string /\
  split_shape_src = ["to_split = units.pop(numpy.random.randint(0, len(units)))"; "except ValueError: units.discard(Unit(Segment(cut, to_split.segment.end), to_split.annotation)); continuum.add(annotator, to_split.segment, to_split.annotation)"]%string.
Proof. repeat split. Qed.

Fixpoint lookup_src (k : string) (l : list (string * string)) : option string :=
  match l with [] => None | (a, b) :: r => if String.eqb k a then Some b else lookup_src k r end.
(* the reference's statistics the tool reads *)
Theorem C19_src_reference_statistics :
  lookup_src "property avg_length_unit" continuum_src = Some "(self) return sum((unit.segment.duration for _, unit in self)) / self.num_units"%string /\
  lookup_src "property avg_num_annotations_per_annotator" continuum_src = Some "(self) return self.num_units / self.num_annotators"%string /\
  lookup_src "property category_weights" continuum_src = Some "(self) weights = SortedDict(); nb_units = 0; for (_, unit) in self: [nb_units += 1; if unit.annotation not in weights: [weights[unit.annotation] = 1] else: [weights[unit.annotation] += 1]]; for annotation in weights.keys(): [weights[annotation] /= nb_units]; return weights"%string /\
  lookup_src "property bounds" continuum_src = Some "(self) return (self.bound_inf, self.bound_sup)"%string.
Proof. repeat split. Qed.

(* the transition entries are affine in their three ingredients with coefficients that sum to 1: a row built from rows that each sum to 1
   (identity, weights, normalised overlaps) sums to 1 for every magnitude - and is the identity row at magnitude 0, with or without an
   overlapping function *)
Theorem C19_src_transition_rows m e1 s1 o1 e2 s2 o2 :
  cat_prob_src e1 s1 m + cat_prob_src e2 s2 m == cat_prob_src (e1 + e2) (s1 + s2) m /\
  cat_prob_overlap_src e1 s1 o1 m + cat_prob_overlap_src e2 s2 o2 m == cat_prob_overlap_src (e1 + e2) (s1 + s2) (o1 + o2) m /\
  cat_prob_src 1 1 m == 1 /\ cat_prob_overlap_src 1 1 1 m == 1 /\
  cat_prob_overlap_src e1 s1 o1 0 == e1.
Proof. unfold cat_prob_src, cat_prob_overlap_src. repeat split; ring. Qed.
