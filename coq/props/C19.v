(* C19 - Corpus shuffling yields valid corpora and each perturbation is confined.  Proofs in theories/Sampler/CstProofs.v.
   (partial: the laws of the random primitives are NumPy's; count-based clauses carry an explicit freshness side condition.) *)
From Coq Require Import List Arith ZArith QArith Bool.
From PGA Require Import Sampler.Cst Sampler.CstProofs.
From PGAgen Require Import ConstGen.
Import ListNotations.
Local Open Scope Q_scope.

(* false negatives only remove units and never leave an annotator empty *)
Theorem C19_false_neg_only_removes m us st r st' : neg_annotator m us st = Some (r, st') -> incl r us /\ r <> [].
Proof. exact (neg_annotator_confined m us st r st'). Qed.
(* false positives only add units *)
Theorem C19_false_pos_only_adds prec k cur st r st' : pos_units prec k cur st = Some (r, st') -> incl cur r.
Proof. exact (pos_units_superset prec k cur st r st'). Qed.
(* category shuffling keeps all segments *)
Theorem C19_cat_shuffle_keeps_segments snapshot cur st r st' : cat_units snapshot cur st = Some (r, st') ->
  forall v, In v r -> exists u, (In u cur \/ In u snapshot) /\ cs v = cs u /\ ce v = ce u.
Proof. exact (cat_units_segments snapshot cur st r st'). Qed.
(* shifting: every unit is an original one with moved ends, same category, start < end; the number of units cannot grow *)
Theorem C19_shift_moves_ends_only shift_max u st v st' : shift_draw shift_max u st = Some (v, st') ->
  cc v = cc u /\ cs v < ce v /\ exists a b, cs v == cs u + a * shift_max /\ ce v == ce u + b * shift_max.
Proof. exact (shift_draw_spec shift_max u st v st'). Qed.
Theorem C19_shift_count prec shift_max snapshot cur st r st' :
  shift_units prec shift_max snapshot cur st = Some (r, st') -> (length r <= length cur + length snapshot)%nat.
Proof. exact (shift_units_length prec shift_max snapshot cur st r st'). Qed.
(* splitting: a real split replaces a unit by two adjacent pieces of the same category: total duration kept, one unit more (fresh pieces) *)
Theorem C19_split_keeps_duration prec us st r st' i cut u :
  st = CRandint i :: CUniform cut :: st' -> nth_error us i = Some u -> split_one prec us st = Some (r, st') ->
  addable prec (mkCU cut (ce u) (cc u)) = true -> addable prec (mkCU (cs u) cut (cc u)) = true ->
  ~ InE (mkCU cut (ce u) (cc u)) (cdel u us) -> ~ InE (mkCU (cs u) cut (cc u)) (cins (mkCU cut (ce u) (cc u)) (cdel u us)) ->
  total_duration r == total_duration us /\ length r = S (length us).
Proof. exact (split_one_duration prec us st r st' i cut u). Qed.

(* magnitude 0: no unit is removed, no unit is added, no split happens, a shifted unit does not move *)
Theorem C19_magnitude_zero_false_neg snapshot cur st r st' : randoms_nonneg st -> neg_units 0 snapshot cur st = Some (r, st') -> r = cur.
Proof. exact (neg_units_zero snapshot cur st r st'). Qed.
Theorem C19_magnitude_zero_false_pos prec cur st : pos_units prec 0 cur st = Some (cur, st).
Proof. exact (pos_units_zero prec cur st). Qed.
Theorem C19_magnitude_zero_split prec corpus st : split_rounds prec 0 corpus st = Some (corpus, st).
Proof. exact (split_rounds_zero prec corpus st). Qed.
Theorem C19_magnitude_zero_shift u st v st' : shift_draw 0 u st = Some (v, st') -> unit_eqv v u.
Proof. exact (shift_draw_zero u st v st'). Qed.

(* validity: positive durations are preserved; the number of annotators never changes; with every flag off nothing happens *)
Theorem C19_positive_durations_shift prec shift_max snapshot cur st r st' : 0 <= prec ->
  shift_units prec shift_max snapshot cur st = Some (r, st') ->
  Forall (fun u => cs u < ce u) cur -> Forall (fun u => cs u < ce u) r.
Proof. exact (shift_units_valid prec shift_max snapshot cur st r st'). Qed.
Theorem C19_positive_durations_false_pos prec k cur st r st' : 0 <= prec -> pos_units prec k cur st = Some (r, st') ->
  Forall (fun u => cs u < ce u) cur -> Forall (fun u => cs u < ce u) r.
Proof. exact (pos_units_valid prec k cur st r st'). Qed.
Theorem C19_annotators_kept f corpus st r st' : per_annotator f corpus st = Some (r, st') -> length r = length corpus.
Proof. exact (per_annotator_length f corpus st r st'). Qed.
Theorem C19_all_flags_off prec m shift_max kpos ksplit corpus st :
  cst_run prec m shift_max kpos ksplit (mkOpts false false false false false) corpus st = Some (corpus, st).
Proof. exact (cst_run_all_off prec m shift_max kpos ksplit corpus st). Qed.

(* the class constants of the CURRENT source (regenerated on every run) are non-negative, so the iteration counts int(m * factor * x) and
   shift_max are non-negative for magnitudes in [0, 1] *)
Theorem C19_source_factors_nonneg :
  Qle_bool 0 shift_factor = true /\ Qle_bool 0 split_factor = true /\ Qle_bool 0 false_pos_factor = true.
Proof. vm_compute. repeat split. Qed.

Example C19_example :
  split_one (1#1000) [mkCU 0 10 0] [CRandint 0; CUniform 4] = Some ([mkCU 0 4 0; mkCU 4 10 0], []) /\
  neg_annotator 1 [mkCU 0 10 0; mkCU 20 30 1] [CChoice 1; CRandom (1#2); CRandom (1#3)] = Some ([mkCU 20 30 1], []).
Proof. vm_compute. split; reflexivity. Qed.
